"""HashMap / BTreeMap / HashSet / BTreeSet as association lists.

Key equality on symbolic keys forks only when undecided.  HashMap/HashSet
iteration order is *nondeterministic by contract*: the model picks an arbitrary
permutation (a choice point), so order-dependent results are explored.
BTree iteration is sorted by key (comparisons may fork).
"""
import z3
from . import model, pattern
from .util import *
from .. import mir as MIR

MAPS = r'std::collections::(HashMap|BTreeMap|HashSet|BTreeSet|hash_map::HashMap|btree_map::BTreeMap|hash_set::HashSet|btree_set::BTreeSet)'


def _map(a):
    m = tgt(a)
    if not isinstance(m, MapV):
        raise Unsupported('expected map, got %s' % type(m).__name__)
    return m


def map_lookup(P, m, key):
    """-> entry list [k, v] or None (forks on undecided key equality)"""
    for ent in m.ent:
        if P.branch(val_eq(P, ent[0], key)):
            return EntryBox(ent)
    return None


class EntryBox:
    """slot container over one [k, v] entry: key index 0, value index 1"""
    __slots__ = ('ent',)

    def __init__(self, ent):
        self.ent = ent

    def getk(self, k):
        return self.ent[k]

    def setk(self, k, v):
        self.ent[k] = v


def map_insert(P, m, key, val):
    e = map_lookup(P, m, key)
    if e is not None:
        old = e.ent[1]
        e.ent[1] = val
        return old
    m.ent.append([key, val])
    return None


def ordered_entries(P, m):
    """entries in iteration order"""
    ents = list(m.ent)
    if len(ents) <= 1:
        return ents
    if m.kind == 'btree':
        from .vecs import _insertion_sort
        return _insertion_sort(P, ents, lambda a, b: is_less(P, a[0], b[0]))
    # hash: arbitrary permutation
    if P.state.get('hash_order_fixed'):
        return ents
    out = []
    rest = ents
    while len(rest) > 1:
        k = P.choice(len(rest))
        out.append(rest[k])
        rest = rest[:k] + rest[k + 1:]
    out.extend(rest)
    return out


def map_into_iter(P, m, owned, what='both'):
    from .iters import ListIter
    ents = ordered_entries(P, m)
    is_set = all(e[1] is None for e in ents) and (m.ty == 'set' or (ents and ents[0][1] is None))
    items = []
    for e in ents:
        box = EntryBox(e)
        if is_set or m.ty == 'set':
            items.append(e[0] if owned else Ref(box, 0))
        elif what == 'keys':
            items.append(e[0] if owned else Ref(box, 0))
        elif what == 'values':
            items.append(e[1] if owned else Ref(box, 1))
        else:
            items.append(tup(e[0], e[1]) if owned else tup(Ref(box, 0), Ref(box, 1)))
    return ListIter(items)


@pattern(MAPS + r'::(new|with_capacity|default|with_hasher|with_capacity_and_hasher)$')
def mp_new(P, c, args, dt):
    kind = 'hash' if 'Hash' in c.key else 'btree'
    return MapV(kind, [], 'set' if 'Set' in c.key else 'map')


@pattern(MAPS + r'::(len)$')
def mp_len(P, c, args, dt):
    return usize(len(_map(args[0]).ent))


@pattern(MAPS + r'::(is_empty)$')
def mp_is_empty(P, c, args, dt):
    return sc_bool(len(_map(args[0]).ent) == 0)


@pattern(MAPS + r'::(clear)$')
def mp_clear(P, c, args, dt):
    del _map(args[0]).ent[:]
    return unit()


@pattern(MAPS + r'::(reserve|shrink_to_fit)$')
def mp_reserve(P, c, args, dt):
    return unit()


@pattern(MAPS + r'::(insert)$')
def mp_insert(P, c, args, dt):
    m = _map(args[0])
    if 'Set' in c.key:
        m.ty = 'set'
        e = map_lookup(P, m, args[1])
        if e is not None:
            return FALSE
        m.ent.append([args[1], None])
        return TRUE
    old = map_insert(P, m, args[1], args[2])
    return none() if old is None else some(old)


@pattern(MAPS + r'::(get|get_mut)$')
def mp_get(P, c, args, dt):
    m = _map(args[0])
    e = map_lookup(P, m, args[1])
    if e is None:
        return none()
    return some(Ref(e, 0 if 'Set' in c.key else 1))


@pattern(MAPS + r'::(get_key_value)$')
def mp_get_kv(P, c, args, dt):
    e = map_lookup(P, _map(args[0]), args[1])
    if e is None:
        return none()
    return some(tup(Ref(e, 0), Ref(e, 1)))


@pattern(MAPS + r'::(contains_key|contains)$')
def mp_contains(P, c, args, dt):
    m = _map(args[0])
    r = FALSE
    for ent in m.ent:
        r = b_or(r, val_eq(P, ent[0], args[1]))
        if r.v is True:
            break
    return r


@pattern(MAPS + r'::(remove|remove_entry|take)$')
def mp_remove(P, c, args, dt):
    m = _map(args[0])
    for i, ent in enumerate(m.ent):
        if P.branch(val_eq(P, ent[0], args[1])):
            del m.ent[i]
            if 'Set' in c.key:
                return TRUE if c.method == 'remove' else some(ent[0])
            if c.method == 'remove_entry':
                return some(tup(ent[0], ent[1]))
            return some(ent[1])
    if 'Set' in c.key and c.method == 'remove':
        return FALSE
    return none()


@pattern(MAPS + r'::(iter|iter_mut)$')
def mp_iter(P, c, args, dt):
    return map_into_iter(P, _map(args[0]), owned=False)


@pattern(MAPS + r'::(keys)$')
def mp_keys(P, c, args, dt):
    return map_into_iter(P, _map(args[0]), owned=False, what='keys')


@pattern(MAPS + r'::(values|values_mut)$')
def mp_values(P, c, args, dt):
    return map_into_iter(P, _map(args[0]), owned=False, what='values')


@pattern(MAPS + r'::(into_keys)$')
def mp_into_keys(P, c, args, dt):
    return map_into_iter(P, _map(args[0]), owned=True, what='keys')


@pattern(MAPS + r'::(into_values)$')
def mp_into_values(P, c, args, dt):
    return map_into_iter(P, _map(args[0]), owned=True, what='values')


@pattern(MAPS + r'::(drain)$')
def mp_drain(P, c, args, dt):
    m = _map(args[0])
    it = map_into_iter(P, MapV(m.kind, list(m.ent), m.ty), owned=True)
    del m.ent[:]
    return it


@pattern(MAPS + r'::(retain)$')
def mp_retain(P, c, args, dt):
    m = _map(args[0])
    out = []
    for ent in ordered_entries(P, m):
        box = EntryBox(ent)
        if 'Set' in c.key:
            keep = P.call_value(args[1], [Ref(box, 0)])
        else:
            keep = P.call_value(args[1], [Ref(box, 0), Ref(box, 1)])
        if P.branch(keep):
            out.append(ent)
    m.ent[:] = out
    return unit()


@pattern(MAPS + r'::(first_key_value|last_key_value|first|last|pop_first|pop_last)$')
def mp_first_last(P, c, args, dt):
    m = _map(args[0])
    ents = ordered_entries(P, m)
    if not ents:
        return none()
    e = ents[0] if 'first' in c.method else ents[-1]
    if c.method.startswith('pop'):
        m.ent.remove(e)
        return some(e[0]) if 'Set' in c.key else some(tup(e[0], e[1]))
    box = EntryBox(e)
    if 'Set' in c.key:
        return some(Ref(box, 0))
    return some(tup(Ref(box, 0), Ref(box, 1)))


@pattern(MAPS + r'::(entry)$')
def mp_entry(P, c, args, dt):
    m = _map(args[0])
    e = map_lookup(P, m, args[1])
    ety = 'std::collections::hash_map::Entry' if m.kind == 'hash' else 'std::collections::btree_map::Entry'
    if e is None:
        return En(ety, 'Vacant', [Opaque('VacantEntry', (m, args[1]))])
    return En(ety, 'Occupied', [Opaque('OccupiedEntry', (m, e))])


ENTRY = r'std::collections::(hash_map|btree_map)::Entry'


def _entry_slot(P, en, make):
    if en.var == 'Occupied':
        return Ref(en.f[0].p[1], 1)
    m, key = en.f[0].p
    ent = [key, make()]
    m.ent.append(ent)
    return Ref(EntryBox(ent), 1)


@pattern(ENTRY + r'::or_insert$')
def en_or_insert(P, c, args, dt):
    return _entry_slot(P, args[0], lambda: args[1])


@pattern(ENTRY + r'::or_insert_with$')
def en_or_insert_with(P, c, args, dt):
    return _entry_slot(P, args[0], lambda: P.call_value(args[1], []))


@pattern(ENTRY + r'::or_default$')
def en_or_default(P, c, args, dt):
    from .core import default_of_type
    vt = c.pathgen[1] if len(c.pathgen) > 1 else None
    if vt is None:
        raise Unsupported('Entry::or_default without value type')
    return _entry_slot(P, args[0], lambda: default_of_type(P, vt))


@pattern(ENTRY + r'::and_modify$')
def en_and_modify(P, c, args, dt):
    en = args[0]
    if en.var == 'Occupied':
        P.call_value(args[1], [Ref(en.f[0].p[1], 1)])
    return en


@pattern(ENTRY + r'::key$')
def en_key(P, c, args, dt):
    en = tgt(args[0])
    if en.var == 'Occupied':
        return Ref(en.f[0].p[1], 0)
    return Ref(Cell(en.f[0].p[1]))


@pattern(r'std::collections::(hash_map|btree_map)::(OccupiedEntry|VacantEntry)::(get|get_mut|into_mut|insert|remove|key)$')
def en_occ(P, c, args, dt):
    o = tgt(args[0])
    if o.tag == 'VacantEntry':
        m, key = o.p
        if c.method == 'insert':
            ent = [key, args[1]]
            m.ent.append(ent)
            return Ref(EntryBox(ent), 1)
        if c.method == 'key':
            return Ref(Cell(key))
        raise Unsupported(c.key)
    m, e = o.p
    if c.method in ('get', 'get_mut', 'into_mut'):
        return Ref(e, 1)
    if c.method == 'key':
        return Ref(e, 0)
    if c.method == 'insert':
        old = e.ent[1]
        e.ent[1] = args[1]
        return old
    if c.method == 'remove':
        m.ent.remove(e.ent)
        return e.ent[1]
    raise Unsupported(c.key)


@pattern(MAPS + r'::(union|intersection|difference|is_subset|is_superset|is_disjoint|symmetric_difference)$')
def set_ops(P, c, args, dt):
    from .iters import ListIter
    a = _map(args[0])
    b = _map(args[1])

    def has(m, k):
        r = FALSE
        for ent in m.ent:
            r = b_or(r, val_eq(P, ent[0], k))
        return P.branch(r)
    ea = ordered_entries(P, a)
    if c.method == 'intersection':
        return ListIter([Ref(EntryBox(e), 0) for e in ea if has(b, e[0])])
    if c.method == 'difference':
        return ListIter([Ref(EntryBox(e), 0) for e in ea if not has(b, e[0])])
    if c.method == 'union':
        eb = ordered_entries(P, b)
        return ListIter([Ref(EntryBox(e), 0) for e in ea] + [Ref(EntryBox(e), 0) for e in eb if not has(a, e[0])])
    if c.method == 'symmetric_difference':
        eb = ordered_entries(P, b)
        return ListIter([Ref(EntryBox(e), 0) for e in ea if not has(b, e[0])] + [Ref(EntryBox(e), 0) for e in eb if not has(a, e[0])])
    if c.method == 'is_subset':
        return sc_bool(all(has(b, e[0]) for e in a.ent))
    if c.method == 'is_superset':
        return sc_bool(all(has(a, e[0]) for e in b.ent))
    if c.method == 'is_disjoint':
        return sc_bool(not any(has(b, e[0]) for e in a.ent))
    raise Unsupported(c.key)


@pattern(MAPS + r'::(range)$')
def mp_range(P, c, args, dt):
    raise Unsupported('BTreeMap::range')
