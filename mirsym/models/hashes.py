"""std::hash at the call boundary: DefaultHasher (SipHash with fixed keys) is replaced by another
deterministic hash of the fed bytes.  Assumption: no collisions among the strings of one run.
Symbolic bytes are decided against their domain first (the digest is computed on concrete bytes)."""
import hashlib
from . import model, pattern
from .util import *
from .util import DOMAINS


def _concretize_bytes(P, bs):
    out = []
    for b in bs:
        if isinstance(b, int):
            out.append(b)
            continue
        dom = DOMAINS.get(b.get_id())
        cands = sorted(dom) if dom is not None and len(dom) <= 32 else None
        if cands is None:
            raise Unsupported('hash of a symbolic byte without a small domain')
        pick = None
        for v in cands:
            if P.branch(byte_eq(b, v)):
                pick = v
                break
        if pick is None:
            from ..interp import Infeasible
            raise Infeasible()
        out.append(pick)
    return out


@model('std::hash::DefaultHasher::new', 'std::collections::hash_map::DefaultHasher::new', 'std::hash::random::DefaultHasher::new')
def h_new(P, c, args, dt):
    return Opaque('Hasher', [])


@model('std::hash::Hash::hash')
def h_hash(P, c, args, dt):
    v = tgt(args[0])
    hs = tgt(args[1])
    if not (isinstance(hs, Opaque) and hs.tag == 'Hasher'):
        raise Unsupported('Hash::hash into %r' % (hs,))
    if is_stringlike(v):
        hs.p.append(bytes(_concretize_bytes(P, list(as_bytes(v)))) + b'\xff')
        return unit()
    if isinstance(v, Sc) and v.concrete:
        hs.p.append(str(v.v).encode() + b'\xfe')
        return unit()
    raise Unsupported('Hash::hash of %r' % (v,))


@model('std::hash::Hasher::finish')
def h_finish(P, c, args, dt):
    hs = tgt(args[0])
    d = hashlib.sha1(b''.join(hs.p)).digest()
    return Sc(int.from_bytes(d[:8], 'big'), 64)
