"""std::path models: a Path is its string (unix semantics, no symbolic separators)."""
import z3
from . import model, pattern
from .util import *


def path_str(v):
    v = tgt(v)
    if isinstance(v, En) and v.ty.endswith('Component'):
        if v.var == 'Normal':
            return path_str(v.f[0])
        return as_strref(pystr({'RootDir': '/', 'CurDir': '.', 'ParentDir': '..'}.get(v.var, '')))
    if isinstance(v, Opaque) and v.tag in ('Path', 'PathBuf', 'OsStr', 'OsString'):
        return as_strref(v.p)
    return as_strref(v)


def mk_pathbuf(bs):
    return Opaque('PathBuf', StringV(bs))


def mk_path(s):
    return Opaque('Path', s)


def path_join_components(P, items):
    out = []
    for x in items:
        b = concrete_or_bytes(x)
        if out and out[-1] != 47:
            out.append(47)
        out.extend(b)
    return mk_pathbuf(out)


def concrete_or_bytes(x):
    x = tgt(x)
    if isinstance(x, En) and x.ty.endswith('Component'):
        if x.var == 'Normal':
            return as_bytes(x.f[0])
        return {'RootDir': [47], 'CurDir': [46], 'ParentDir': [46, 46]}.get(x.var, [])
    return as_bytes(x)


@model('std::path::Path::new')
def p_new(P, c, args, dt):
    return mk_path(path_str(args[0]))


@model('std::path::PathBuf::new')
def pb_new(P, c, args, dt):
    return mk_pathbuf([])


@model('std::path::PathBuf::from')
def pb_from(P, c, args, dt):
    return mk_pathbuf(path_str(args[0]).bytes())


@model('std::path::Path::to_path_buf', 'std::path::Path::to_owned')
def p_to_path_buf(P, c, args, dt):
    return mk_pathbuf(path_str(args[0]).bytes())


@model('std::path::PathBuf::as_path')
def pb_as_path(P, c, args, dt):
    return mk_path(path_str(args[0]))


@model('std::path::Path::to_str', 'std::ffi::OsStr::to_str')
def p_to_str(P, c, args, dt):
    return some(path_str(args[0]))


@model('std::path::Path::to_string_lossy', 'std::ffi::OsStr::to_string_lossy')
def p_to_string_lossy(P, c, args, dt):
    return En('std::borrow::Cow', 'Borrowed', [path_str(args[0])])


@model('std::path::Path::as_os_str', 'std::path::PathBuf::as_os_str')
def p_as_os_str(P, c, args, dt):
    return Opaque('OsStr', path_str(args[0]))


@model('std::path::Path::display', 'std::path::PathBuf::display')
def p_display(P, c, args, dt):
    return Opaque('Display', path_str(args[0]))


def _cb(v):
    bs = path_str(v).bytes()
    cb = concrete_bytes(bs)
    if cb is None:
        raise Unsupported('symbolic path in structural path operation')
    return cb.decode('utf-8', 'surrogateescape')


@model('std::path::Path::join')
def p_join(P, c, args, dt):
    a = path_str(args[0]).bytes()
    b = path_str(args[1]).bytes()
    if b and isinstance(b[0], int) and b[0] == 47:
        return mk_pathbuf(b)
    if b and not isinstance(b[0], int):
        # symbolic first byte: fork on absolute
        if P.branch(byte_eq(b[0], 47)):
            return mk_pathbuf(b)
    out = list(a)
    if out and not (isinstance(out[-1], int) and out[-1] == 47):
        out.append(47)
    out.extend(b)
    return mk_pathbuf(out)


@model('std::path::PathBuf::push')
def pb_push(P, c, args, dt):
    pb = tgt(args[0])
    b = path_str(args[1]).bytes()
    if b and isinstance(b[0], int) and b[0] == 47:
        pb.p = StringV(b)
        return unit()
    out = pb.p.buf.b
    if out and not (isinstance(out[-1], int) and out[-1] == 47):
        out.append(47)
    out.extend(b)
    return unit()


@model('std::path::Path::is_absolute', 'std::path::Path::has_root')
def p_is_absolute(P, c, args, dt):
    b = path_str(args[0]).bytes()
    if not b:
        return FALSE
    return byte_eq(b[0], 47)


@model('std::path::Path::is_relative')
def p_is_relative(P, c, args, dt):
    return b_not(p_is_absolute(P, c, args, dt))


def _components(s):
    """unix Path::components on a python str -> list of (kind, text)"""
    out = []
    if s.startswith('/'):
        out.append(('RootDir', '/'))
    parts = s.split('/')
    first = True
    for i, p in enumerate(parts):
        if p == '':
            continue
        if p == '.':
            # CurDir is kept only at the very start of a relative path
            if not out and first and not s.startswith('/'):
                out.append(('CurDir', '.'))
            first = False
            continue
        first = False
        if p == '..':
            out.append(('ParentDir', '..'))
        else:
            out.append(('Normal', p))
    return out


def _comp_val(kind, text):
    if kind == 'Normal':
        return En('std::path::Component', 'Normal', [Opaque('OsStr', pystr(text))])
    return En('std::path::Component', kind, [])


@model('std::path::Path::components')
def p_components(P, c, args, dt):
    from .iters import ListIter
    return ListIter([_comp_val(k, t) for k, t in _components(_cb(args[0]))])


@model('std::path::Path::iter')
def p_iter(P, c, args, dt):
    from .iters import ListIter
    return ListIter([Opaque('OsStr', pystr(t)) for k, t in _components(_cb(args[0]))])


@model('std::path::Component::as_os_str')
def comp_as_os_str(P, c, args, dt):
    v = tgt(args[0])
    if v.var == 'Normal':
        return v.f[0]
    return Opaque('OsStr', pystr({'RootDir': '/', 'CurDir': '.', 'ParentDir': '..'}[v.var]))


def _rebuild(comps):
    s = ''
    for k, t in comps:
        if k == 'RootDir':
            s = '/'
        else:
            if s and not s.endswith('/'):
                s += '/'
            s += t
    return s


@model('std::path::Path::parent')
def p_parent(P, c, args, dt):
    comps = _components(_cb(args[0]))
    if not comps or comps == [('RootDir', '/')]:
        return none()
    return some(mk_path(pystr(_rebuild(comps[:-1]))))


@model('std::path::Path::file_name')
def p_file_name(P, c, args, dt):
    comps = _components(_cb(args[0]))
    if comps and comps[-1][0] == 'Normal':
        return some(Opaque('OsStr', pystr(comps[-1][1])))
    return none()


@model('std::path::Path::extension', 'std::path::Path::file_stem')
def p_extension(P, c, args, dt):
    comps = _components(_cb(args[0]))
    if not comps or comps[-1][0] != 'Normal':
        return none()
    name = comps[-1][1]
    k = name.rfind('.')
    if k <= 0:
        return none() if c.method == 'extension' else some(Opaque('OsStr', pystr(name)))
    return some(Opaque('OsStr', pystr(name[k + 1:] if c.method == 'extension' else name[:k])))


@model('std::path::Path::with_extension')
def p_with_extension(P, c, args, dt):
    sp = _cb(args[0])
    ext = bytes(concrete_bytes(list(path_str(args[1]).bytes()))).decode()
    head, sep, name = sp.rpartition('/')
    k = name.rfind('.')
    stem = name[:k] if k > 0 else name
    new = stem + ('.' + ext if ext else '')
    return mk_pathbuf(list((head + sep + new).encode()))


@model('std::path::Path::starts_with')
def p_starts_with(P, c, args, dt):
    a = _components(_cb(args[0]))
    b = _components(_cb(args[1]))
    return sc_bool(a[:len(b)] == b)


@model('std::path::Path::ends_with')
def p_ends_with(P, c, args, dt):
    a = _components(_cb(args[0]))
    b = _components(_cb(args[1]))
    return sc_bool(len(b) <= len(a) and a[len(a) - len(b):] == b)


@model('std::path::Path::strip_prefix')
def p_strip_prefix(P, c, args, dt):
    a = _components(_cb(args[0]))
    b = _components(_cb(args[1]))
    if a[:len(b)] == b:
        return ok(mk_path(pystr(_rebuild(a[len(b):]))))
    return err(Opaque('StripPrefixError'))


@model('std::path::PathBuf::pop')
def pb_pop(P, c, args, dt):
    pb = tgt(args[0])
    comps = _components(_cb(pb))
    if not comps or comps == [('RootDir', '/')]:
        return FALSE
    pb.p = StringV(_rebuild(comps[:-1]).encode())
    return TRUE


@model('std::ffi::OsStr::new')
def os_new(P, c, args, dt):
    return Opaque('OsStr', path_str(args[0]))


@model('std::ffi::OsStr::to_os_string', 'std::ffi::OsStr::to_owned', 'std::ffi::OsString::from')
def os_to_owned(P, c, args, dt):
    return Opaque('OsString', StringV(path_str(args[0]).bytes()))


@model('std::ffi::OsString::into_string')
def os_into_string(P, c, args, dt):
    return ok(StringV(path_str(args[0]).bytes()))


@model('std::ffi::OsStr::is_empty', 'std::ffi::OsStr::len')
def os_len(P, c, args, dt):
    n = len(path_str(args[0]))
    return sc_bool(n == 0) if c.method == 'is_empty' else usize(n)
