"""Option / Result / Try / Clone / cmp / convert / mem / panics / integers."""
import re
import z3
from . import model, pattern
from .util import *
from ..interp import strip_lifetimes
from .. import mir as MIR


# ---------------------------------------------------------------------------
# panics & process

@model('std::panicking::panic', 'std::panicking::panic_fmt', 'std::panicking::panic_display',
       'std::panicking::panic_explicit', 'std::panicking::begin_panic', 'std::rt::begin_panic',
       'std::rt::panic_fmt', 'std::panicking::panic_nounwind', 'std::panicking::unreachable_display',
       'std::panicking::panic_const::panic_const_div_by_zero', 'std::panicking::panic_const::panic_const_rem_by_zero',
       'std::panicking::assert_failed', 'std::panicking::panic_bounds_check',
       'std::option::expect_failed', 'std::option::unwrap_failed', 'std::result::unwrap_failed',
       'std::slice::index::slice_index_fail', 'std::str::slice_error_fail')
def m_panic(P, c, args, dt):
    msg = c.key
    if args:
        a = tgt(args[0])
        if isinstance(a, StrRef):
            cb = concrete_bytes(a.bytes())
            if cb is not None:
                msg += ': ' + cb.decode('utf-8', 'replace')
        elif isinstance(a, Opaque) and a.tag == 'Arguments':
            msg += ': <fmt>'
    raise Panic(msg)


@pattern(r'std::panicking::panic_const::.*')
def m_panic_const(P, c, args, dt):
    raise Panic(c.key)


@model('std::process::exit')
def m_exit(P, c, args, dt):
    raise ProcessExit(args[0])


@model('std::process::abort')
def m_abort(P, c, args, dt):
    raise Panic('abort')


@model('std::hint::must_use', 'std::convert::identity', 'std::hint::black_box')
def m_identity(P, c, args, dt):
    return args[0]


@model('std::hint::unreachable_unchecked', 'std::intrinsics::unreachable')
def m_unreachable(P, c, args, dt):
    raise Unsupported('unreachable_unchecked reached')


@model('std::intrinsics::cold_path', 'std::hint::spin_loop', 'std::hint::assert_unchecked',
       'std::intrinsics::assume')
def m_nop(P, c, args, dt):
    return unit()


@model('std::mem::drop', 'std::mem::forget')
def m_drop(P, c, args, dt):
    return unit()


@model('std::mem::take')
def m_take(P, c, args, dt):
    slot = tgt_slot(args[0])
    old = slot.get()
    slot.set(default_like(P, old, c.gen[0] if c.gen else None))
    return old


@model('std::mem::replace')
def m_replace(P, c, args, dt):
    slot = tgt_slot(args[0])
    old = slot.get()
    slot.set(args[1])
    return old


@model('std::mem::swap')
def m_swap(P, c, args, dt):
    a = tgt_slot(args[0])
    b = tgt_slot(args[1])
    x, y = a.get(), b.get()
    a.set(y)
    b.set(x)
    return unit()


def default_like(P, v, ty=None):
    if isinstance(v, StringV):
        return StringV([])
    if isinstance(v, VecV):
        return VecV([], v.ty)
    if isinstance(v, MapV):
        return MapV(v.kind, [], v.ty)
    if isinstance(v, En) and v.ty == OPT:
        return none()
    if isinstance(v, Sc):
        return Sc(False if v.w == 0 else 0, v.w, v.s)
    if ty is not None:
        return default_of_type(P, ty)
    raise Unsupported('default of %s' % type(v).__name__)


def default_of_type(P, ty):
    ty = strip_lifetimes(ty.strip())
    if ty in MIR.INT_TYPES:
        w, s = MIR.INT_TYPES[ty]
        return Sc(0, w, s)
    if ty == 'bool':
        return FALSE
    if ty == '()':
        return unit()
    if ty == 'std::string::String':
        return StringV([])
    if ty == '&str':
        return mk_str(b'')
    b = type_base(ty)
    if b in ('std::vec::Vec', 'std::collections::VecDeque'):
        return VecV([])
    if b in ('std::collections::HashMap', 'std::collections::HashSet'):
        return MapV('hash', [])
    if b in ('std::collections::BTreeMap', 'std::collections::BTreeSet'):
        return MapV('btree', [])
    if b == 'std::option::Option':
        return none()
    if b == 'std::path::PathBuf':
        return Opaque('PathBuf', StringV([]))
    if ty.startswith('('):
        parts = MIR.split_top(ty[1:-1])
        return Agg('()', [default_of_type(P, p) for p in parts if p])
    # crate type with Default impl
    last = b.rsplit('::', 1)[-1]
    lst = P.M.trait_impls.get(('Default', last, 'default'))
    if lst and len(lst) == 1:
        return P.run_fn(P.M.mir.get(lst[0]), [])
    raise Unsupported('Default::default for %s' % ty)


@model('std::default::Default::default')
def m_default(P, c, args, dt):
    return default_of_type(P, c.selfty)


# ---------------------------------------------------------------------------
# Clone / PartialEq / Ord on std types (crate types resolve to their MIR impls)

@model('std::clone::Clone::clone', 'std::borrow::ToOwned::to_owned', 'std::clone::Clone::clone_from')
def m_clone(P, c, args, dt):
    if c.method == 'clone_from':
        slot = tgt_slot(args[0])
        slot.set(clone_val(P, tgt(args[1])))
        return unit()
    v = args[0]
    if isinstance(v, Ref):
        v = v.get()
    if isinstance(v, StrRef) and c.method == 'to_owned':
        return StringV(v.bytes())
    if isinstance(v, SliceRef) and c.method == 'to_owned':
        return VecV([clone_val(P, x) for x in v.elems()])
    return clone_val(P, v)


@model('std::cmp::PartialEq::eq')
def m_eq(P, c, args, dt):
    return val_eq(P, args[0], args[1])


@model('std::cmp::PartialEq::ne')
def m_ne(P, c, args, dt):
    return b_not(val_eq(P, args[0], args[1]))


@model('std::cmp::Ord::cmp')
def m_cmp(P, c, args, dt):
    return val_cmp(P, args[0], args[1])


@model('std::cmp::PartialOrd::partial_cmp')
def m_partial_cmp(P, c, args, dt):
    return some(val_cmp(P, args[0], args[1]))


def _cmp_bool(P, args, pred):
    o = val_cmp(P, args[0], args[1])
    d = ord_disc(P, o)
    if d.concrete:
        return sc_bool(pred(d.sval()))
    z = d.z()
    conds = {'lt': z == z3.BitVecVal(-1, 8), 'le': z != z3.BitVecVal(1, 8),
             'gt': z == z3.BitVecVal(1, 8), 'ge': z != z3.BitVecVal(-1, 8)}
    return mk_bool(z3.simplify(conds[pred.__name__]))


def lt(x):
    return x < 0


def le(x):
    return x <= 0


def gt(x):
    return x > 0


def ge(x):
    return x >= 0


@model('std::cmp::PartialOrd::lt')
def m_lt(P, c, args, dt):
    return _cmp_bool(P, args, lt)


@model('std::cmp::PartialOrd::le')
def m_le(P, c, args, dt):
    return _cmp_bool(P, args, le)


@model('std::cmp::PartialOrd::gt')
def m_gt(P, c, args, dt):
    return _cmp_bool(P, args, gt)


@model('std::cmp::PartialOrd::ge')
def m_ge(P, c, args, dt):
    return _cmp_bool(P, args, ge)


def sc_ite(P, cond, a, b):
    """cond ? a : b for scalars (Sc); cond is Sc bool"""
    if isinstance(cond.v, bool):
        return a if cond.v else b
    if isinstance(a, Sc) and isinstance(b, Sc):
        return Sc(z3.If(cond.v, a.z(), b.z()), a.w, a.s)
    # non-scalars: fork
    return a if P.branch(cond) else b


@model('std::cmp::Ord::max', 'std::cmp::max')
def m_max(P, c, args, dt):
    a, b = args
    o = _cmp_bool(P, [a, b], gt)
    return sc_ite(P, o, a, b)   # max returns b when equal; for Ord values equal => indistinguishable for scalars


@model('std::cmp::Ord::min', 'std::cmp::min')
def m_min(P, c, args, dt):
    a, b = args
    o = _cmp_bool(P, [a, b], le)
    return sc_ite(P, o, a, b)


@model('std::cmp::Ord::clamp')
def m_clamp(P, c, args, dt):
    v, lo, hi = args
    v = sc_ite(P, _cmp_bool(P, [v, lo], lt), lo, v)
    return sc_ite(P, _cmp_bool(P, [v, hi], gt), hi, v)


@model('std::cmp::Ordering::then')
def m_ord_then(P, c, args, dt):
    return ord_then(P, args[0], args[1])


@model('std::cmp::Ordering::then_with')
def m_ord_then_with(P, c, args, dt):
    d = ord_disc(P, args[0])
    if d.concrete:
        if d.sval() != 0:
            return args[0]
        return call_closure(P, args[1])
    if P.branch(d.z() != 0):
        return args[0]
    return call_closure(P, args[1])


@model('std::cmp::Ordering::reverse')
def m_ord_rev(P, c, args, dt):
    d = ord_disc(P, args[0])
    if d.concrete:
        return ordering(-d.sval())
    return En(ORD, None, [], Sc(-d.z(), 8, True))


@model('std::cmp::Ordering::is_eq', 'std::cmp::Ordering::is_ne', 'std::cmp::Ordering::is_lt',
       'std::cmp::Ordering::is_gt', 'std::cmp::Ordering::is_le', 'std::cmp::Ordering::is_ge')
def m_ord_is(P, c, args, dt):
    d = ord_disc(P, tgt(args[0]))
    k = c.method
    if d.concrete:
        x = d.sval()
        return sc_bool({'is_eq': x == 0, 'is_ne': x != 0, 'is_lt': x < 0, 'is_gt': x > 0, 'is_le': x <= 0, 'is_ge': x >= 0}[k])
    z = d.z()
    m1, p1, z0 = z3.BitVecVal(-1, 8), z3.BitVecVal(1, 8), z3.BitVecVal(0, 8)
    return mk_bool({'is_eq': z == z0, 'is_ne': z != z0, 'is_lt': z == m1, 'is_gt': z == p1, 'is_le': z != p1, 'is_ge': z != m1}[k])


@model('std::cmp::Reverse')
def m_reverse_ctor(P, c, args, dt):
    return Agg('std::cmp::Reverse', [args[0]])


# ---------------------------------------------------------------------------
# Option

@model('std::option::Option::is_some')
def o_is_some(P, c, args, dt):
    return sc_bool(tgt(args[0]).var == 'Some')


@model('std::option::Option::is_none')
def o_is_none(P, c, args, dt):
    return sc_bool(tgt(args[0]).var == 'None')


@model('std::option::Option::is_some_and')
def o_is_some_and(P, c, args, dt):
    o = args[0]
    if o.var == 'None':
        return FALSE
    return call_closure(P, args[1], o.f[0])


@model('std::option::Option::is_none_or')
def o_is_none_or(P, c, args, dt):
    o = args[0]
    if o.var == 'None':
        return TRUE
    return call_closure(P, args[1], o.f[0])


@model('std::option::Option::unwrap', 'std::option::Option::expect', 'std::option::Option::unwrap_unchecked')
def o_unwrap(P, c, args, dt):
    o = args[0]
    if o.var == 'None':
        raise Panic('called `Option::%s()` on a `None` value' % c.method)
    return o.f[0]


@model('std::option::Option::unwrap_or')
def o_unwrap_or(P, c, args, dt):
    o = args[0]
    return o.f[0] if o.var == 'Some' else args[1]


@model('std::option::Option::unwrap_or_else')
def o_unwrap_or_else(P, c, args, dt):
    o = args[0]
    return o.f[0] if o.var == 'Some' else call_closure(P, args[1])


@model('std::option::Option::unwrap_or_default')
def o_unwrap_or_default(P, c, args, dt):
    o = args[0]
    if o.var == 'Some':
        return o.f[0]
    return default_of_type(P, c.pathgen[0] if c.pathgen else dt)


@model('std::option::Option::map')
def o_map(P, c, args, dt):
    o = args[0]
    if o.var == 'None':
        return none()
    return some(call_closure(P, args[1], o.f[0]))


@model('std::option::Option::map_or')
def o_map_or(P, c, args, dt):
    o = args[0]
    if o.var == 'None':
        return args[1]
    return call_closure(P, args[2], o.f[0])


@model('std::option::Option::map_or_else')
def o_map_or_else(P, c, args, dt):
    o = args[0]
    if o.var == 'None':
        return call_closure(P, args[1])
    return call_closure(P, args[2], o.f[0])


@model('std::option::Option::and_then')
def o_and_then(P, c, args, dt):
    o = args[0]
    if o.var == 'None':
        return none()
    return call_closure(P, args[1], o.f[0])


@model('std::option::Option::and')
def o_and(P, c, args, dt):
    return args[1] if args[0].var == 'Some' else none()


@model('std::option::Option::or')
def o_or(P, c, args, dt):
    return args[0] if args[0].var == 'Some' else args[1]


@model('std::option::Option::or_else')
def o_or_else(P, c, args, dt):
    return args[0] if args[0].var == 'Some' else call_closure(P, args[1])


@model('std::option::Option::filter')
def o_filter(P, c, args, dt):
    o = args[0]
    if o.var == 'None':
        return o
    keep = call_closure(P, args[1], Ref(o, 0))
    return o if P.branch(keep) else none()


@model('std::option::Option::ok_or')
def o_ok_or(P, c, args, dt):
    o = args[0]
    return ok(o.f[0]) if o.var == 'Some' else err(args[1])


@model('std::option::Option::ok_or_else')
def o_ok_or_else(P, c, args, dt):
    o = args[0]
    return ok(o.f[0]) if o.var == 'Some' else err(call_closure(P, args[1]))


@model('std::option::Option::as_ref', 'std::option::Option::as_mut')
def o_as_ref(P, c, args, dt):
    o = tgt(args[0])
    if o.var == 'None':
        return none()
    return some(Ref(o, 0))


@model('std::option::Option::as_deref', 'std::option::Option::as_deref_mut')
def o_as_deref(P, c, args, dt):
    o = tgt(args[0])
    if o.var == 'None':
        return none()
    return some(deref_value(P, Ref(o, 0)))


def deref_value(P, r):
    """Deref::deref on a reference to String/Vec/Box/PathBuf ..."""
    v = tgt(r)
    if isinstance(v, StringV):
        return v.view()
    if isinstance(v, VecV):
        return SliceRef(v, 0, len(v.e))
    if isinstance(v, BoxV):
        if isinstance(v.v, (StrRef, SliceRef)):
            return v.v
        return Ref(v, None)
    if isinstance(v, (StrRef, SliceRef)):
        return v
    if isinstance(v, Opaque) and v.tag == 'PathBuf':
        return Opaque('Path', v.p.view() if isinstance(v.p, StringV) else v.p)
    if isinstance(v, En) and v.ty.endswith('Cow'):
        return deref_value(P, Ref(v, 0)) if v.var == 'Owned' else v.f[0]
    if isinstance(v, Opaque) and v.tag in ('MutexGuard', 'RefMut', 'Ref_'):
        return v.p
    raise Unsupported('Deref::deref of %s' % type(v).__name__)


@model('std::ops::Deref::deref', 'std::ops::DerefMut::deref_mut')
def m_deref(P, c, args, dt):
    return deref_value(P, args[0])


@model('std::option::Option::take')
def o_take(P, c, args, dt):
    slot = tgt_slot(args[0])
    old = slot.get()
    slot.set(none())
    return old


@model('std::option::Option::replace')
def o_replace(P, c, args, dt):
    slot = tgt_slot(args[0])
    old = slot.get()
    slot.set(some(args[1]))
    return old


@model('std::option::Option::insert', 'std::option::Option::get_or_insert')
def o_insert(P, c, args, dt):
    slot = tgt_slot(args[0])
    cur = slot.get()
    if c.method == 'insert' or cur.var == 'None':
        cur = some(args[1])
        slot.set(cur)
    return Ref(cur, 0)


@model('std::option::Option::get_or_insert_with')
def o_get_or_insert_with(P, c, args, dt):
    slot = tgt_slot(args[0])
    cur = slot.get()
    if cur.var == 'None':
        cur = some(call_closure(P, args[1]))
        slot.set(cur)
    return Ref(cur, 0)


@model('std::option::Option::cloned', 'std::option::Option::copied')
def o_cloned(P, c, args, dt):
    o = args[0]
    if o.var == 'None':
        return none()
    return some(clone_val(P, tgt(o.f[0])))


@model('std::option::Option::ok')
def o_ok(P, c, args, dt):
    return args[0]


@model('std::option::Option::flatten')
def o_flatten(P, c, args, dt):
    o = args[0]
    return o.f[0] if o.var == 'Some' else none()


@model('std::option::Option::zip')
def o_zip(P, c, args, dt):
    a, b = args
    if a.var == 'Some' and b.var == 'Some':
        return some(tup(a.f[0], b.f[0]))
    return none()


@model('std::option::Option::xor')
def o_xor(P, c, args, dt):
    a, b = args
    if a.var == 'Some' and b.var == 'None':
        return a
    if a.var == 'None' and b.var == 'Some':
        return b
    return none()


@model('std::option::Option::iter', 'std::option::Option::into_iter')
def o_iter(P, c, args, dt):
    from .iters import ListIter
    o = tgt(args[0])
    if o.var == 'None':
        return ListIter([])
    if c.method == 'iter':
        return ListIter([Ref(o, 0)])
    return ListIter([o.f[0]])


@model('std::option::Option::unzip')
def o_unzip(P, c, args, dt):
    o = args[0]
    if o.var == 'None':
        return tup(none(), none())
    return tup(some(o.f[0].f[0]), some(o.f[0].f[1]))


@model('std::option::Option::transpose')
def o_transpose(P, c, args, dt):
    o = args[0]
    if o.var == 'None':
        return ok(none())
    r = o.f[0]
    if r.var == 'Ok':
        return ok(some(r.f[0]))
    return err(r.f[0])


# ---------------------------------------------------------------------------
# Result

@model('std::result::Result::is_ok')
def r_is_ok(P, c, args, dt):
    return sc_bool(tgt(args[0]).var == 'Ok')


@model('std::result::Result::is_err')
def r_is_err(P, c, args, dt):
    return sc_bool(tgt(args[0]).var == 'Err')


@model('std::result::Result::is_ok_and')
def r_is_ok_and(P, c, args, dt):
    r = args[0]
    if r.var != 'Ok':
        return FALSE
    return call_closure(P, args[1], r.f[0])


@model('std::result::Result::ok')
def r_ok(P, c, args, dt):
    r = args[0]
    return some(r.f[0]) if r.var == 'Ok' else none()


@model('std::result::Result::err')
def r_err(P, c, args, dt):
    r = args[0]
    return some(r.f[0]) if r.var == 'Err' else none()


@model('std::result::Result::unwrap', 'std::result::Result::expect')
def r_unwrap(P, c, args, dt):
    r = args[0]
    if r.var == 'Err':
        raise Panic('called `Result::%s()` on an `Err` value' % c.method)
    return r.f[0]


@model('std::result::Result::unwrap_err', 'std::result::Result::expect_err')
def r_unwrap_err(P, c, args, dt):
    r = args[0]
    if r.var == 'Ok':
        raise Panic('called `Result::unwrap_err()` on an `Ok` value')
    return r.f[0]


@model('std::result::Result::unwrap_or')
def r_unwrap_or(P, c, args, dt):
    r = args[0]
    return r.f[0] if r.var == 'Ok' else args[1]


@model('std::result::Result::unwrap_or_else')
def r_unwrap_or_else(P, c, args, dt):
    r = args[0]
    return r.f[0] if r.var == 'Ok' else call_closure(P, args[1], r.f[0])


@model('std::result::Result::unwrap_or_default')
def r_unwrap_or_default(P, c, args, dt):
    r = args[0]
    if r.var == 'Ok':
        return r.f[0]
    return default_of_type(P, c.pathgen[0] if c.pathgen else dt)


@model('std::result::Result::map')
def r_map(P, c, args, dt):
    r = args[0]
    if r.var == 'Err':
        return r
    return ok(call_closure(P, args[1], r.f[0]))


@model('std::result::Result::map_err')
def r_map_err(P, c, args, dt):
    r = args[0]
    if r.var == 'Ok':
        return r
    return err(call_closure(P, args[1], r.f[0]))


@model('std::result::Result::map_or')
def r_map_or(P, c, args, dt):
    r = args[0]
    if r.var == 'Err':
        return args[1]
    return call_closure(P, args[2], r.f[0])


@model('std::result::Result::map_or_else')
def r_map_or_else(P, c, args, dt):
    r = args[0]
    if r.var == 'Err':
        return call_closure(P, args[1], r.f[0])
    return call_closure(P, args[2], r.f[0])


@model('std::result::Result::and_then')
def r_and_then(P, c, args, dt):
    r = args[0]
    if r.var == 'Err':
        return r
    return call_closure(P, args[1], r.f[0])


@model('std::result::Result::or_else')
def r_or_else(P, c, args, dt):
    r = args[0]
    if r.var == 'Ok':
        return r
    return call_closure(P, args[1], r.f[0])


@model('std::result::Result::as_ref', 'std::result::Result::as_mut')
def r_as_ref(P, c, args, dt):
    r = tgt(args[0])
    return En(RES, r.var, [Ref(r, 0)])


@model('std::result::Result::as_deref')
def r_as_deref(P, c, args, dt):
    r = tgt(args[0])
    if r.var == 'Ok':
        return ok(deref_value(P, Ref(r, 0)))
    return err(Ref(r, 0))


@model('std::result::Result::iter', 'std::result::Result::into_iter')
def r_iter(P, c, args, dt):
    from .iters import ListIter
    r = tgt(args[0])
    if r.var == 'Err':
        return ListIter([])
    return ListIter([Ref(r, 0) if c.method == 'iter' else r.f[0]])


@model('std::result::Result::inspect_err')
def r_inspect_err(P, c, args, dt):
    r = args[0]
    if r.var == 'Err':
        call_closure(P, args[1], Ref(r, 0))
    return r


@model('std::result::Result::cloned', 'std::result::Result::copied')
def r_cloned(P, c, args, dt):
    r = args[0]
    if r.var == 'Ok':
        return ok(clone_val(P, tgt(r.f[0])))
    return r


# ---------------------------------------------------------------------------
# Try / FromResidual  (the `?` operator)

@model('std::ops::Try::branch')
def m_try_branch(P, c, args, dt):
    v = args[0]
    if v.var in ('Some', 'Ok'):
        return En(CF, 'Continue', [v.f[0]])
    if v.var == 'None':
        return En(CF, 'Break', [none()])
    if v.var == 'Err':
        return En(CF, 'Break', [err(v.f[0])])
    raise Unsupported('Try::branch on %r' % (v,))


@model('std::ops::Try::from_output')
def m_from_output(P, c, args, dt):
    b = type_base(c.selfty)
    if b.endswith('Option'):
        return some(args[0])
    return ok(args[0])


@model('std::ops::FromResidual::from_residual')
def m_from_residual(P, c, args, dt):
    r = args[0]
    if r.var == 'None':
        if type_base(c.selfty).endswith('Result'):
            raise Unsupported('Option residual into Result')
        return none()
    if r.var != 'Err':
        raise Unsupported('from_residual of %r' % (r,))
    # Result<T, F> from Result<Infallible, E>:  Err(From::from(e))
    sg = MIR.split_top(c.selfty[c.selfty.index('<') + 1:-1])
    tg = MIR.split_top(c.traitgen[0][c.traitgen[0].index('<') + 1:-1]) if c.traitgen else []
    to_ty = sg[1] if len(sg) > 1 else None
    from_ty = tg[1] if len(tg) > 1 else None
    return err(convert_from(P, r.f[0], from_ty, to_ty))


def norm_std_ty(t):
    for a in ('core::', 'alloc::'):
        if t.startswith(a):
            return 'std::' + t[len(a):]
    return t


def convert_from(P, v, from_ty, to_ty):
    """<To as From<From>>::from(v)"""
    if to_ty is None or from_ty is None or strip_lifetimes(from_ty) == strip_lifetimes(to_ty):
        return v
    to_b = type_base(to_ty)
    if to_b == 'std::boxed::Box':
        if isinstance(v, BoxV):
            return v
        if isinstance(v, StrRef):
            return BoxV(Opaque('StringError', StringV(v.bytes())))
        return BoxV(v)
    if to_b == 'std::string::String':
        return StringV(as_bytes(v))
    if to_b == 'std::path::PathBuf':
        return Opaque('PathBuf', StringV(as_bytes(v)))
    if to_b == 'std::option::Option':
        return some(v)
    if to_b == 'std::io::Error':
        return Opaque('io::Error', v)
    if to_ty.strip() in MIR.INT_TYPES and isinstance(v, Sc):
        w, s = MIR.INT_TYPES[to_ty.strip()]
        return int_cast(v, w, s)
    if to_b in ('std::vec::Vec',):
        if isinstance(tgt(v), (StrRef, StringV)):
            return VecV([Sc(b, 8) for b in as_bytes(v)])
        return VecV([clone_val(P, x) for x in elems_of(v)])
    if to_b in ('std::borrow::Cow',):
        if isinstance(v, (StringV, VecV)):
            return En('std::borrow::Cow', 'Owned', [v])
        return En('std::borrow::Cow', 'Borrowed', [v])
    if to_b in ('std::sync::Arc', 'std::rc::Rc'):
        return BoxV(v, to_b.rsplit('::', 1)[-1])
    if to_b == 'std::ffi::OsString':
        return Opaque('OsString', StringV(as_bytes(v)))
    # crate impl From<from_ty> for to_ty
    last = to_b.rsplit('::', 1)[-1]
    lst = P.M.trait_impls.get(('From', last, 'from'))
    if lst:
        want = type_base(from_ty).rsplit('::', 1)[-1]
        wfull = norm_std_ty(type_base(from_ty))
        hits = []
        exact = []
        for nm in lst:
            params, ret = P.M.mir.signature(nm)
            if params and type_base(params[0][1]).rsplit('::', 1)[-1] == want and \
                    params[0][1].startswith('&') == from_ty.strip().startswith('&'):
                hits.append(nm)
                if norm_std_ty(type_base(params[0][1])) == wfull:
                    exact.append(nm)
        if len(exact) == 1:
            return P.run_fn(P.M.mir.get(exact[0]), [v])
        if len(hits) == 1:
            return P.run_fn(P.M.mir.get(hits[0]), [v])
        if len(lst) == 1:
            return P.run_fn(P.M.mir.get(lst[0]), [v])
    raise Unsupported('From<%s> for %s' % (from_ty, to_ty))


@model('std::convert::From::from')
def m_from(P, c, args, dt):
    return convert_from(P, args[0], c.traitgen[0] if c.traitgen else None, c.selfty)


@model('std::convert::Into::into')
def m_into(P, c, args, dt):
    return convert_from(P, args[0], c.selfty, c.traitgen[0] if c.traitgen else dt)


@model('std::convert::TryFrom::try_from', 'std::convert::TryInto::try_into')
def m_try_from(P, c, args, dt):
    if c.method == 'try_from':
        to_ty, from_ty = c.selfty, (c.traitgen[0] if c.traitgen else None)
    else:
        from_ty, to_ty = c.selfty, (c.traitgen[0] if c.traitgen else None)
    v = args[0]
    if isinstance(v, Sc) and to_ty and to_ty.strip() in MIR.INT_TYPES:
        w, s = MIR.INT_TYPES[to_ty.strip()]
        r = int_cast(v, w, s)
        back_ok = binop('Eq', int_cast(r, 128, True), int_cast(v, 128, True)) if v.w < 128 else TRUE
        if P.branch(back_ok):
            return ok(r)
        return err(Opaque('TryFromIntError'))
    raise Unsupported('TryFrom %s -> %s' % (from_ty, to_ty))


@model('std::convert::AsRef::as_ref', 'std::borrow::Borrow::borrow', 'std::convert::AsMut::as_mut',
       'std::borrow::BorrowMut::borrow_mut')
def m_as_ref(P, c, args, dt):
    want = c.traitgen[0].strip() if c.traitgen else ''
    v = tgt(args[0])
    if want == 'str':
        return as_strref(v)
    if want in ('std::path::Path', 'std::ffi::OsStr'):
        if isinstance(v, Opaque) and v.tag in ('Path', 'PathBuf', 'OsStr', 'OsString'):
            return Opaque('Path' if want.endswith('Path') else 'OsStr', as_strref(v.p))
        return Opaque('Path' if want.endswith('Path') else 'OsStr', as_strref(v))
    if want.startswith('['):
        return as_slice(v)
    if isinstance(args[0], Ref):
        return args[0]
    return args[0]


# ---------------------------------------------------------------------------
# Box / Rc / Arc / cells

@model('std::boxed::Box::new', 'std::boxed::box_new')
def m_box_new(P, c, args, dt):
    return BoxV(args[0])


@model('std::boxed::Box::new_uninit')
def m_box_new_uninit(P, c, args, dt):
    return BoxV(None)


@model('std::boxed::box_assume_init_into_vec_unsafe')
def m_box_into_vec(P, c, args, dt):
    # vec![a, b, ..]: Box<MaybeUninit<[T; N]>> written through its raw pointer, then turned into a Vec
    v = args[0].v
    while isinstance(v, Agg) and v.ty != '[]':
        nxt = [x for x in v.f if x is not None]
        if len(nxt) != 1:
            raise Unsupported('unexpected MaybeUninit layout')
        v = nxt[0]
    if not isinstance(v, Agg):
        raise Unsupported('vec! macro box without array')
    return VecV(list(v.f))


@model('std::rc::Rc::new')
def m_rc_new(P, c, args, dt):
    return BoxV(args[0], 'Rc')


@model('std::sync::Arc::new')
def m_arc_new(P, c, args, dt):
    return BoxV(args[0], 'Arc')


@model('std::boxed::Box::leak', 'std::boxed::Box::into_raw')
def m_box_leak(P, c, args, dt):
    return Ref(args[0], None)


@model('std::boxed::Box::from_raw')
def m_box_from_raw(P, c, args, dt):
    r = args[0]
    if isinstance(r, Ref) and isinstance(r.cont, BoxV):
        return r.cont
    raise Unsupported('Box::from_raw of foreign pointer')


@model('std::cell::RefCell::new', 'std::cell::Cell::new', 'std::sync::Mutex::new', 'std::sync::RwLock::new')
def m_cell_new(P, c, args, dt):
    return BoxV(args[0], c.key.rsplit('::', 2)[-2])


@model('std::cell::Cell::get')
def m_cell_get(P, c, args, dt):
    return copy_val(tgt(args[0]).v)


@model('std::cell::Cell::set')
def m_cell_set(P, c, args, dt):
    tgt(args[0]).v = args[1]
    return unit()


@model('std::cell::RefCell::borrow', 'std::cell::RefCell::borrow_mut')
def m_refcell_borrow(P, c, args, dt):
    return Opaque('RefMut', Ref(tgt(args[0]), None))


@model('std::sync::Mutex::lock')
def m_mutex_lock(P, c, args, dt):
    return ok(Opaque('MutexGuard', Ref(tgt(args[0]), None)))


# ---------------------------------------------------------------------------
# integers

def _sc2(args):
    a = tgt(args[0])
    b = tgt(args[1]) if len(args) > 1 else None
    return a, b


def _int_method(name):
    def deco(fn):
        PATTERNSX.append((name, fn))
        return fn
    return deco


PATTERNSX = []


@pattern(r'std::num::<impl (u8|u16|u32|u64|u128|usize|i8|i16|i32|i64|i128|isize)>::([a-z_0-9]+)$')
def m_int_methods(P, c, args, dt):
    name = c.method
    a = args[0]
    b = args[1] if len(args) > 1 else None
    w, s = MIR.INT_TYPES[c.selfty]
    if name in ('saturating_sub', 'saturating_add', 'saturating_mul'):
        op = {'saturating_sub': 'Sub', 'saturating_add': 'Add', 'saturating_mul': 'Mul'}[name]
        r = binop(op + 'WithOverflow', a, b)
        val, ovf = r.f
        if s:
            lo = Sc(-(1 << (w - 1)), w, s)
            hi = Sc((1 << (w - 1)) - 1, w, s)
            if op == 'Add':
                sat = sc_ite(P, binop('Lt', b, Sc(0, w, s)), lo, hi)
            elif op == 'Sub':
                sat = sc_ite(P, binop('Lt', b, Sc(0, w, s)), hi, lo)
            else:
                neg = binop('Ne', binop('Lt', a, Sc(0, w, s)), binop('Lt', b, Sc(0, w, s)))
                sat = sc_ite(P, neg, lo, hi)
        else:
            sat = Sc(0, w, s) if op == 'Sub' else Sc((1 << w) - 1, w, s)
        return sc_ite(P, ovf, sat, val)
    if name in ('wrapping_add', 'wrapping_sub', 'wrapping_mul'):
        return binop({'wrapping_add': 'Add', 'wrapping_sub': 'Sub', 'wrapping_mul': 'Mul'}[name], a, b)
    if name in ('checked_add', 'checked_sub', 'checked_mul'):
        r = binop({'checked_add': 'Add', 'checked_sub': 'Sub', 'checked_mul': 'Mul'}[name] + 'WithOverflow', a, b)
        if P.branch(r.f[1]):
            return none()
        return some(r.f[0])
    if name in ('checked_div', 'checked_rem'):
        if P.branch(binop('Eq', b, Sc(0, w, s))):
            return none()
        return some(binop('Div' if name == 'checked_div' else 'Rem', a, b))
    if name in ('overflowing_add', 'overflowing_sub', 'overflowing_mul'):
        return binop({'overflowing_add': 'Add', 'overflowing_sub': 'Sub', 'overflowing_mul': 'Mul'}[name] + 'WithOverflow', a, b)
    if name == 'abs_diff':
        lt_ = binop('Lt', a, b)
        d1 = binop('Sub', b, a)
        d2 = binop('Sub', a, b)
        r = sc_ite(P, lt_, d1, d2)
        return Sc(r.v, w, False)
    if name == 'abs':
        neg = binop('Lt', a, Sc(0, w, s))
        return sc_ite(P, neg, Sc(-a.v if not a.concrete else -a.sval(), w, s), a)
    if name == 'unsigned_abs':
        neg = binop('Lt', a, Sc(0, w, s))
        r = sc_ite(P, neg, Sc(-a.v if not a.concrete else -a.sval(), w, s), a)
        return Sc(r.v, w, False)
    if name == 'pow':
        e = expect_concrete(b, 'exponent')
        r = Sc(1, w, s)
        for _ in range(e):
            r = binop('Mul', r, a)
        return r
    if name == 'is_power_of_two':
        if a.concrete:
            return sc_bool(a.v != 0 and (a.v & (a.v - 1)) == 0)
        return mk_bool(z3.And(a.v != 0, (a.v & (a.v - 1)) == 0))
    if name in ('min', 'max'):
        cond = binop('Le' if name == 'min' else 'Ge', a, b)
        return sc_ite(P, cond, a, b)
    if name == 'div_ceil':
        q = binop('Div', a, b)
        r = binop('Rem', a, b)
        return sc_ite(P, binop('Ne', r, Sc(0, w, s)), binop('Add', q, Sc(1, w, s)), q)
    if name in ('to_le_bytes', 'to_be_bytes', 'to_ne_bytes'):
        v = expect_concrete(a)
        bs = [(v >> (8 * i)) & 255 for i in range(w // 8)]
        if name == 'to_be_bytes':
            bs.reverse()
        return Agg('[]', [Sc(x, 8) for x in bs])
    if name == 'count_ones':
        return Sc(bin(expect_concrete(a)).count('1'), 32)
    if name == 'leading_zeros':
        v = expect_concrete(a)
        return Sc(w - v.bit_length(), 32)
    if name == 'trailing_zeros':
        v = expect_concrete(a)
        return Sc(w if v == 0 else (v & -v).bit_length() - 1, 32)
    if name == 'signum':
        return sc_ite(P, binop('Lt', a, Sc(0, w, s)), Sc(-1, w, s), sc_ite(P, binop('Eq', a, Sc(0, w, s)), Sc(0, w, s), Sc(1, w, s)))
    if name == 'is_negative':
        return binop('Lt', a, Sc(0, w, s))
    if name == 'is_positive':
        return binop('Gt', a, Sc(0, w, s))
    if name == 'rem_euclid':
        r = binop('Rem', a, b)
        if not s:
            return r
        neg = binop('Lt', r, Sc(0, w, s))
        babs = sc_ite(P, binop('Lt', b, Sc(0, w, s)), Sc(-b.v if not b.concrete else -b.sval(), w, s), b)
        return sc_ite(P, neg, binop('Add', r, babs), r)
    if name == 'from_str_radix':
        from .strs import parse_int
        return parse_int(P, as_strref(a), w, s, expect_concrete(b))
    if name in ('is_ascii_digit', 'is_ascii_alphabetic', 'is_ascii_alphanumeric', 'is_ascii_whitespace',
                'is_ascii_uppercase', 'is_ascii_lowercase', 'is_ascii_punctuation', 'is_ascii_hexdigit',
                'is_ascii', 'is_ascii_graphic', 'is_ascii_control', 'to_ascii_lowercase', 'to_ascii_uppercase',
                'eq_ignore_ascii_case'):
        from .strs import ascii_class
        return ascii_class(P, name, tgt(a), tgt(b) if b is not None else None, 8)
    raise Unsupported('integer method %s::%s' % (c.selfty, name))


@model('std::num::NonZero::get')
def m_nonzero_get(P, c, args, dt):
    return args[0].f[0] if isinstance(args[0], Agg) else args[0]


@model('std::ops::Add::add', 'std::ops::Sub::sub', 'std::ops::Mul::mul', 'std::ops::Div::div', 'std::ops::Rem::rem')
def m_arith_trait(P, c, args, dt):
    a, b = tgt(args[0]), tgt(args[1])
    op = {'add': 'Add', 'sub': 'Sub', 'mul': 'Mul', 'div': 'Div', 'rem': 'Rem'}[c.method]
    if isinstance(a, Sc) and isinstance(b, Sc):
        if op in ('Add', 'Sub', 'Mul'):
            r = binop(op + 'WithOverflow', a, b)
            if P.branch(r.f[1]):
                raise Panic('attempt to %s with overflow' % c.method)
            return r.f[0]
        if P.branch(binop('Eq', b, Sc(0, b.w, b.s))):
            raise Panic('division by zero')
        return binop(op, a, b)
    if isinstance(a, StringV) and op == 'Add':
        a.buf.b.extend(as_bytes(b))
        return a
    if isinstance(a, Opaque) and a.tag == 'f64':
        return binop(op, a, b)
    raise Unsupported('%s on %s' % (c.key, type(a).__name__))


@model('std::ops::AddAssign::add_assign', 'std::ops::SubAssign::sub_assign', 'std::ops::MulAssign::mul_assign')
def m_arith_assign(P, c, args, dt):
    slot = tgt_slot(args[0])
    a = slot.get()
    b = tgt(args[1])
    op = {'add_assign': 'Add', 'sub_assign': 'Sub', 'mul_assign': 'Mul'}[c.method]
    if isinstance(a, Sc):
        r = binop(op + 'WithOverflow', a, b)
        if P.branch(r.f[1]):
            raise Panic('attempt to %s with overflow' % c.method)
        slot.set(r.f[0])
        return unit()
    if isinstance(a, StringV) and op == 'Add':
        a.buf.b.extend(as_bytes(b))
        return unit()
    if isinstance(a, Opaque) and a.tag == 'f64':
        slot.set(binop(op, a, b))
        return unit()
    raise Unsupported('%s on %s' % (c.key, type(a).__name__))


@model('std::ops::Not::not')
def m_not(P, c, args, dt):
    return P.not_(tgt(args[0]))


@model('std::ops::Neg::neg')
def m_neg(P, c, args, dt):
    a = tgt(args[0])
    if isinstance(a, Sc):
        return Sc(-a.sval() if a.concrete else -a.v, a.w, a.s)
    if isinstance(a, Opaque) and a.tag == 'f64':
        return Opaque('f64', -a.p)
    raise Unsupported('neg')


@model('std::ops::BitOr::bitor', 'std::ops::BitAnd::bitand', 'std::ops::BitXor::bitxor')
def m_bit_trait(P, c, args, dt):
    return binop({'bitor': 'BitOr', 'bitand': 'BitAnd', 'bitxor': 'BitXor'}[c.method], tgt(args[0]), tgt(args[1]))


@model('std::ops::BitOrAssign::bitor_assign', 'std::ops::BitAndAssign::bitand_assign')
def m_bit_assign(P, c, args, dt):
    slot = tgt_slot(args[0])
    slot.set(binop('BitOr' if 'or' in c.method else 'BitAnd', slot.get(), tgt(args[1])))
    return unit()


# ---------------------------------------------------------------------------
# closures through the Fn traits

@model('std::ops::FnOnce::call_once', 'std::ops::FnMut::call_mut', 'std::ops::Fn::call')
def m_fn_call(P, c, args, dt):
    f = args[0]
    a = args[1]
    lst = list(a.f) if isinstance(a, Agg) and a.ty == '()' else [a]
    return P.call_value(f, lst)


# ---------------------------------------------------------------------------
# catch_unwind

@model('std::panic::catch_unwind')
def m_catch_unwind(P, c, args, dt):
    f = args[0]
    if isinstance(f, Agg) and str(getattr(f, 'ty', '')).endswith('AssertUnwindSafe') and len(f.f) == 1:
        f = f.f[0]          # AssertUnwindSafe(closure): FnOnce forwards to the closure
    try:
        return ok(P.call_value(f, []))
    except Panic as e:
        P.events.append(('caught_panic', e.msg))
        return err(BoxV(Opaque('PanicPayload', e.msg)))


@model('type::downcast_ref')
def m_downcast_ref(P, c, args, dt):
    """a caught panic payload is opaque here: neither the &str nor the String downcast succeeds"""
    v = tgt(args[0]) if args else None
    inner = getattr(v, 'v', v)
    if isinstance(inner, Opaque) and inner.tag == 'PanicPayload' or isinstance(v, Opaque) and v.tag == 'PanicPayload':
        return none()
    raise Unsupported('downcast_ref of %r' % (v,))


@model('std::panic::AssertUnwindSafe')
def m_aus(P, c, args, dt):
    return Agg('std::panic::AssertUnwindSafe', [args[0]])


@model('std::panic::resume_unwind')
def m_resume_unwind(P, c, args, dt):
    raise Panic('resume_unwind')


@model('std::any::Any::type_id', 'std::any::type_name')
def m_any(P, c, args, dt):
    raise Unsupported('Any')


@model('std::bool::<impl bool>::then')
def m_bool_then(P, c, args, dt):
    if P.branch(args[0]):
        return some(call_closure(P, args[1]))
    return none()


@model('std::bool::<impl bool>::then_some')
def m_bool_then_some(P, c, args, dt):
    if P.branch(args[0]):
        return some(args[1])
    return none()


@model('std::ops::RangeInclusive::new')
def m_range_inclusive_new(P, c, args, dt):
    return Agg('std::ops::RangeInclusive', [args[0], args[1], FALSE])


@model('std::ops::RangeInclusive::start', 'std::ops::RangeInclusive::end')
def m_range_inclusive_get(P, c, args, dt):
    r = tgt(args[0])
    return Ref(r, 0 if c.method == 'start' else 1)


@model('std::ops::RangeInclusive::contains', 'std::ops::Range::contains', 'std::ops::RangeBounds::contains')
def m_range_contains(P, c, args, dt):
    r = tgt(args[0])
    x = tgt(args[1])
    last = r.ty.rsplit('::', 1)[-1]
    lo = binop('Ge', x, r.f[0])
    if last == 'RangeInclusive':
        return b_and(lo, binop('Le', x, r.f[1]))
    if last == 'Range':
        return b_and(lo, binop('Lt', x, r.f[1]))
    raise Unsupported('contains on %s' % r.ty)


@model('std::ops::Range::is_empty', 'std::ops::RangeInclusive::is_empty')
def m_range_is_empty(P, c, args, dt):
    r = tgt(args[0])
    if r.ty.endswith('RangeInclusive'):
        return binop('Gt', r.f[0], r.f[1])
    return binop('Ge', r.f[0], r.f[1])
