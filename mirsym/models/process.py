"""std::process::Command as a recorder.

A Command value logs every builder call (program, args, env, env_remove, stdio, current_dir,
pre_exec); spawn/status/output hand the log to P.state['spawn'](P, record) supplied by the
harness, which returns the child's exit status / output (symbolic).  Every spawned record is
appended to P.events as ('spawn', record).
"""
import z3
from . import model, pattern
from .util import *


class Cmd:
    def __init__(self, program):
        self.program = program
        self.args = []
        self.env = []
        self.env_removed = []
        self.stdio = []
        self.cwd = None
        self.pre_exec = 0
        self.pre_exec_closures = []

    def record(self):
        return {'program': self.program, 'args': list(self.args), 'env': list(self.env), 'env_removed': list(self.env_removed),
                'stdio': list(self.stdio), 'cwd': self.cwd, 'pre_exec': self.pre_exec}


def _cmd(a):
    c = tgt(a)
    if isinstance(c, Opaque) and c.tag == 'Command':
        return c.p
    raise Unsupported('expected Command')


def _bytes(v):
    v = tgt(v)
    if isinstance(v, Opaque) and v.tag in ('Path', 'PathBuf', 'OsStr', 'OsString'):
        return list(as_bytes(v.p))
    return list(as_bytes(v))


@model('std::process::Command::new')
def c_new(P, c, args, dt):
    return Opaque('Command', Cmd(_bytes(args[0])))


@model('std::process::Command::arg')
def c_arg(P, c, args, dt):
    _cmd(args[0]).args.append(_bytes(args[1]))
    return args[0]


@model('std::process::Command::args')
def c_args(P, c, args, dt):
    from .iters import collect_list, into_iter
    for a in collect_list(P, into_iter(P, args[1])):
        _cmd(args[0]).args.append(_bytes(a))
    return args[0]


@model('std::process::Command::env')
def c_env(P, c, args, dt):
    _cmd(args[0]).env.append((_bytes(args[1]), _bytes(args[2])))
    return args[0]


@model('std::process::Command::env_remove')
def c_env_remove(P, c, args, dt):
    _cmd(args[0]).env_removed.append(_bytes(args[1]))
    return args[0]


@model('std::process::Command::env_clear')
def c_env_clear(P, c, args, dt):
    _cmd(args[0]).env_removed.append(list(b'*'))
    return args[0]


@model('std::process::Command::current_dir')
def c_current_dir(P, c, args, dt):
    _cmd(args[0]).cwd = _bytes(args[1])
    return args[0]


@model('std::process::Command::stdin', 'std::process::Command::stdout', 'std::process::Command::stderr')
def c_stdio(P, c, args, dt):
    _cmd(args[0]).stdio.append(c.method)
    return args[0]


@model('std::process::Stdio::piped', 'std::process::Stdio::null', 'std::process::Stdio::inherit')
def c_stdio_val(P, c, args, dt):
    return Opaque('Stdio', c.method)


@model('std::os::unix::process::CommandExt::pre_exec')
def c_pre_exec(P, c, args, dt):
    _cmd(args[0]).pre_exec += 1
    _cmd(args[0]).pre_exec_closures.append(args[1])
    return args[0]


def _spawn(P, cmd, how):
    # what the child does between fork and exec
    P.events.append(('pre_exec_begin',))
    for cl in cmd.pre_exec_closures:
        P.call_value(cl, [])
    P.events.append(('pre_exec_end',))
    rec = cmd.record()
    rec['how'] = how
    P.events.append(('spawn', rec))
    f = P.state.get('spawn')
    if f is None:
        raise Unsupported('process spawn without a harness-provided child model')
    return f(P, rec)


@model('std::process::Command::spawn')
def c_spawn(P, c, args, dt):
    r = _spawn(P, _cmd(args[0]), 'spawn')
    if r is None:
        return err(Opaque('io::Error', 'spawn'))
    return ok(Opaque('Child', r))


@model('std::process::Command::status')
def c_status(P, c, args, dt):
    r = _spawn(P, _cmd(args[0]), 'status')
    if r is None:
        return err(Opaque('io::Error', 'spawn'))
    return ok(r['status'])


@model('std::process::Command::output')
def c_output(P, c, args, dt):
    r = _spawn(P, _cmd(args[0]), 'output')
    if r is None:
        return err(Opaque('io::Error', 'spawn'))
    return ok(Agg('std::process::Output', [r['status'], VecV([Sc(b, 8) for b in r.get('stdout', [])]), VecV([Sc(b, 8) for b in r.get('stderr', [])])]))


@model('std::process::Child::id')
def ch_id(P, c, args, dt):
    return Sc(4242, 32)


@model('std::process::Child::wait')
def ch_wait(P, c, args, dt):
    ch = tgt(args[0]).p
    if ch.get('wait_fails'):
        return err(Opaque('io::Error', 'wait'))
    return ok(ch['status'])


@model('std::process::ExitStatus::code')
def es_code(P, c, args, dt):
    return tgt(args[0]).p['code']


@model('std::os::unix::process::ExitStatusExt::signal')
def es_signal(P, c, args, dt):
    return tgt(args[0]).p['signal']


@model('std::process::ExitStatus::success')
def es_success(P, c, args, dt):
    cd = tgt(args[0]).p['code']
    if cd.var == 'None':
        return FALSE
    return binop('Eq', cd.f[0], Sc(0, 32, True))


@pattern(r'std::sync::atomic::Atomic(::|<).*(store)$')
def at_store(P, c, args, dt):
    a = tgt(args[0])
    if isinstance(a, BoxV):
        a.v = args[1]
    return unit()


@model('std::sync::atomic::Atomic::store')
def at_store2(P, c, args, dt):
    P.events.append(('atomic_store', args[1]))
    return unit()


@model('std::sync::atomic::Atomic::load')
def at_load(P, c, args, dt):
    raise Unsupported('atomic load')


def _tty(P, fd):
    """is file descriptor fd a terminal: one symbolic answer per descriptor and path"""
    t = P.state.setdefault('isatty', {})
    if not isinstance(t, dict):
        t = {}
        P.state['isatty'] = t
    if fd not in t:
        v = Sc(P.fresh(32, 'isatty%d' % fd), 32, True)
        P.assume(z3.Or(v.v == 0, v.v == 1))
        t[fd] = v
    return t[fd]


@model('libc::isatty', 'libc::unix::isatty')
def libc_isatty(P, c, args, dt):
    fd = args[0]
    if not (isinstance(fd, Sc) and fd.concrete):
        raise Unsupported('isatty of a symbolic descriptor')
    return _tty(P, fd.v)


@model('std::io::stdin', 'std::io::stdout', 'std::io::stderr')
def io_handle(P, c, args, dt):
    return Opaque('StdHandle', {'stdin': 0, 'stdout': 1, 'stderr': 2}[c.method])


@model('std::io::IsTerminal::is_terminal')
def io_is_terminal(P, c, args, dt):
    hnd = tgt(args[0])
    if not (isinstance(hnd, Opaque) and hnd.tag == 'StdHandle'):
        raise Unsupported('is_terminal of %r' % (hnd,))
    return binop('Eq', _tty(P, hnd.p), Sc(1, 32, True))


@model('libc::signal', 'libc::unix::signal')
def libc_signal(P, c, args, dt):
    P.events.append(('signal', args[0]))
    return Sc(0, 64)


@model('libc::setpgid', 'libc::unix::setpgid', 'libc::kill', 'libc::unix::kill')
def libc_misc(P, c, args, dt):
    P.events.append((c.method, list(args)))
    return Sc(0, 32, True)
