#!/bin/bash
# usage: tools/run_all.sh [tier]   -- run every registered check once on /repo, sequentially; summary on stdout
cd /verif
tier="${1:-quick}"
ids=$(python3 -c "import json; print(' '.join(c['property_id'] for c in json.load(open('MANIFEST.json'))['checks']))")
for id in $ids; do
  t0=$(date +%s)
  ./check $id --tier $tier > /tmp/all-$id.out 2>&1
  rc=$?
  t1=$(date +%s)
  echo "$id exit=$rc $((t1-t0))s $(grep -c '^KNOWN-FINDING' /tmp/all-$id.out) known; $(grep -E '^(VIOLATION|INCONCLUSIVE)' /tmp/all-$id.out | head -3 | cut -c1-200 | tr '\n' '|')"
done
echo ALLCHECKSDONE
