ENGINES = [
    {'name': 'kani', 'path': '/verif/kani', 'serves_properties': ['C02', 'C05'],
     'kind_free_text': 'Kani 0.68 / CBMC harness crate with a path dependency on /repo: proof harnesses over the scalar kernels (LineRange::{contains, overlaps, shift}, LineAttribution / Attribution intersection), run by the same ./check as a second opinion for the MIR engine'},
    {'name': 'mirsym', 'path': '/verif/mirsym',
     'serves_properties': ['C01', 'C02', 'C03', 'C04', 'C05', 'C06', 'C07', 'C08', 'C09', 'C14', 'C15', 'C20', 'C12', 'C16', 'C17', 'C18', 'C19'],
     'kind_free_text': 'symbolic executor over the MIR that rustc emits for /repo\'s working tree (regenerated per tree state); std modelled at the call boundary; z3 QF_BV decides every branch and every obligation; counterexamples replayed natively through /verif/replay'},
]
NOTES = 'Every check: exit 0 = held for all inputs inside the stated bounds (KNOWN-FINDING lines allowed); exit 1 = natively reproducing violation; exit 2 = inconclusive (unsupported construct, solver unknown, model/native mismatch, vacuous harness) and is never reported as a pass.'
CHECKS = {
    'C17': {
        'text': 'Bounded symbolic execution of the real serializer/parser pair (MIR of the working tree): for every log inside the bounds the solver shows deserialize(serialize(L)) == L, that the text obeys the standard\'s grammar (differential against a reference emitter), that the parser never panics on any short text and rejects texts without a divider, and that the textual base-commit rewrite equals rewriting the field. Counterexamples are replayed against the compiled code before being reported.',
        'design_ref': 'DESIGN.md §4 C17',
        'note': 'serde_json is a codec model (injective, no raw CR/LF inside strings); symbolic bytes are ASCII, multi-byte characters concrete; bounds in evidence.coverage.bounds',
        'technique': 'MIR symbolic execution + z3 (bounded), native replay of counterexamples',
    },
}
CHECKS['C18'] = {
    'text': 'Bounded symbolic execution of the real argument scanner and alias code: for every argv inside the bounds the vector handed to git is literally the user\'s, or git (reference model of handle_options/cmd_main, option table probed from the installed binary) interprets both identically; alias tokenisation equals git\'s split_cmdline; alias resolution ends in the command git itself would run. Counterexamples are replayed against the real git binary.',
    'design_ref': 'DESIGN.md §4 C18',
    'note': 'reference models of git.c option scanning and alias.c split_cmdline are the trusted part (every counterexample is confirmed by running the installed git); token alphabet and lengths in evidence.coverage.bounds',
    'technique': 'MIR symbolic execution + z3 (bounded), differential against reference models, replay against real git',
}
CHECKS['C19'] = {
    'text': 'Bounded symbolic execution of the real statistics code: for every note / added-line set / numstat text inside the bounds the solver decides accepted == |added lines the note lists| (as a set), human + accepted == added, ai_additions == accepted + mixed <= added, every per-tool field sums to its total, and added/deleted equal the sum of the non-ignored numstat rows. Counterexamples are replayed against the compiled code (numstat ones on a real commit built to print that numstat).',
    'design_ref': 'DESIGN.md §4 C19',
    'note': 'git subprocess and ignore matcher are environment models (numstat grammar, arbitrary predicate); counters < 2^20 so that u32 sums cannot overflow; transcripts empty',
    'technique': 'MIR symbolic execution + z3 (bounded), native replay of counterexamples',
}
CHECKS['C01'] = {
    'text': 'Kernel claim. Bounded symbolic execution of the real `git diff -U0` readers: for every patch inside the bounds (grammar model of git\'s output with fully symbolic body-line content, symbolic hunk starts, quoted / spaced names, added / deleted files) the solver decides that the per-file added-line and pure-insertion maps equal the union of the hunk headers\' new ranges. Counterexamples are replayed against the compiled parser.',
    'design_ref': 'DESIGN.md §4 C01',
    'note': 'only stage K1 of the pipeline is decided here; projection to lines and the tracker are decided under C16, the committed/unstaged split under C04; file discovery, blame and notes I/O are outside',
    'technique': 'MIR symbolic execution + z3 (bounded) over a grammar model of git diff output, native replay',
}
CHECKS['C12'] = {
    'text': 'Kernel claim. Bounded symbolic execution of the real profile-pinning code: for every argument vector inside the bounds and each internal profile the solver decides that every neutralising option is present before `--`, no conflicting user option survives before `--`, tokens before the subcommand and from `--` on are untouched, other user options are preserved in order, the General profile is the identity, and internal calls neutralise core.hooksPath exactly when the guard is active.',
    'design_ref': 'DESIGN.md §4 C12',
    'note': 'oracle = the list of configuration dimensions C12 names, with git\'s last-option-wins rule; which call sites use which profile is not decided; discovery (K3) not encoded',
    'technique': 'MIR symbolic execution + z3 (bounded), native replay',
}
CHECKS['C16'] = {
    'text': 'Bounded symbolic execution of the real tracker (update_attributions end to end, the line projection and its inverse, the tokenizer) over symbolic texts: no panic, every output range inside the new text on char boundaries, identical text keeps every line\'s author, byte-identical leading/trailing lines keep their author, text added to an empty file belongs to the reporting author, the line projection equals a reference reading of the property (latest substantive attribution wins), lines->chars->lines is the identity on AI lines, tokens are ordered, disjoint, non-blank and cover every non-blank byte. Counterexamples are replayed against the compiled code.',
    'design_ref': 'DESIGN.md §4 C16',
    'note': 'imara-diff replaced at its API by a reference LCS (one valid minimal script per equality pattern); texts are a few symbolic bytes over small alphabets plus multi-byte/CRLF templates; previous attributions come from 9 fixed layouts (incl. unsorted, overlapping, zero-length, out of range)',
    'technique': 'MIR symbolic execution + z3 (bounded), reference-model differential, native replay',
}
CHECKS['C04'] = {
    'text': 'Bounded symbolic execution of the real committed/unstaged split (to_authorship_log_and_initial_working_log, whole): for every working tree inside the bounds — a symbolic number K of untouched leading lines, then up to 3 lines each pre-existing / added by the commit / unstaged, optionally an unstaged deletion — and every assignment of authors, the solver decides that the note lists exactly the commit-coordinate numbers of the AI lines the commit added, INITIAL keeps exactly the working-tree numbers of the unstaged AI lines, nothing appears in both, nothing for human, untouched files appear in neither, and the note ranges are sorted / disjoint / non-adjacent. Counterexamples are replayed on a real repository built to that ground truth.',
    'design_ref': 'DESIGN.md §4 C04',
    'note': 'the two git diffs are environment models derived from the ground truth (validated by the native replay, which runs the real git); replace-type unstaged hunks and multi-commit sequences are outside (single step decided for an arbitrary pending state)',
    'technique': 'MIR symbolic execution + z3 (bounded) over a ground-truth model of the working tree, native replay on a real repository',
}
CHECKS['C05'] = {
    'text': 'Kernel claim. Bounded symbolic execution of the real attestation builders (build_file_attestation_from_line_attributions, upsert_file_attestation, build_authorship_log_from_state, VirtualAttributions::to_authorship_log, LineRange::compress_lines) over arbitrary symbolic line attributions: one attestation per file, one entry per session, never a human entry, ranges sorted / disjoint / non-adjacent with Single iff start == end, for EVERY line l the line is listed for a session iff one of that session\'s attributions covers it (universally quantified l), only existing files, base = the given commit. The serialized form is the C17 check; the note half of the commit path is checked under C04.',
    'design_ref': 'DESIGN.md §4 C05',
    'note': 'inputs satisfy start <= end; notes-tree fan-out (K3) and object-database facts are not encoded',
    'technique': 'MIR symbolic execution + z3 (bounded; line numbers fully symbolic u32), native replay',
}
CHECKS['C09'] = {
    'text': 'Kernel claim. Bounded symbolic execution of the real note lookup (get_line_attribution) and blame overlay (overlay_ai_authorship): for every note, queried file, fully symbolic line, and for every set of blame hunks with symbolic final/original line numbers, a line is reported for session S exactly when the originating commit\'s note lists the original line number for the path the file had in that commit (last listing entry wins), lines of commits without a note are human/Unknown per the options, and no other line gets an author. Counterexamples are replayed natively: the lookup directly, the overlay on real commits carrying the notes, the rename case on a real `git mv` history through the whole blame pipeline.',
    'design_ref': 'DESIGN.md §4 C09',
    'note': 'the hunks themselves come from git blame (not encoded); formatter agreement reduces to the single line_authors map decided here; foreign-prompt grep is an environment model that finds nothing',
    'technique': 'MIR symbolic execution + z3 (bounded; line numbers symbolic), native replay incl. a real rename history',
}
CHECKS['C03'] = {
    'text': 'Kernel claim. Bounded symbolic execution of the real discard paths over a model file system: after remove_attributions_for_pathspecs (path checkout / restore) no file matched by a pathspec is named by INITIAL or by any checkpoint entry that the (model) disk now holds — read back through the real readers — and files not matched are unchanged; after reset_working_log nothing is pending. The soundness half of the commit path (only session-reported lines that the commit added reach a note, never a human entry) is decided by the C04 check.',
    'design_ref': 'DESIGN.md §4 C03',
    'note': 'file system and serde_json are models (map path -> content; injective codec); the hook dispatch that decides WHEN these helpers run is not encoded; `.` pathspecs are outside (helper matches literal prefixes)',
    'technique': 'MIR symbolic execution + z3 (bounded) over a model file system, native replay on a scratch repository',
}
CHECKS['C07'] = {
    'text': 'Kernel claim. Bounded symbolic execution of the real private-state readers and writers over a model file system in which every call may fail and every file may hold arbitrary bytes: the journal parser always succeeds, skips malformed lines and keeps the well-formed events in order; appending an event prepends it, fails only on an I/O error, never panics, and whatever happened the journal stays readable with no event invented or lost; INITIAL reads as empty whenever it is missing / corrupt / unreadable; a corrupt checkpoints file yields an error or nothing, never invented entries, and the next append still succeeds; exit_with_status exits with exactly the child\'s code or re-raises exactly the child\'s signal (symbolic code / signal).',
    'design_ref': 'DESIGN.md §4 C07',
    'note': 'crash points inside a write, the catch_unwind guard and the pre-commit refusal in handle_git, and containment of failing internal git calls (K4) are not encoded; serde_json is the codec model',
    'technique': 'MIR symbolic execution + z3 (bounded) over a fault-injecting model file system, native replay',
}
CHECKS['C02'] = {
    'text': 'Narrow claim: failed and dry-run operations are inert. Bounded symbolic execution of the real post-command hooks of commit, reset, checkout, switch, stash, merge and pull with a symbolic non-zero exit status / death by signal (commit and merge also with status 0 and --dry-run): on every path the hook returns without crossing the boundary behind which every note, working-log, INITIAL and journal mutator lives. LineRange::shift (used by the note-shifting helpers) never yields an inverted range, is the identity below the insertion point and moves by exactly the offset at/after it — decided by both engines (MIR executor and Kani, full u32/i32 domain).',
    'design_ref': 'DESIGN.md §4 C02',
    'note': 'everything about commit graphs, conflicts, todo lists and stash layouts is decided by git and is outside; rebase / cherry-pick hooks are outside (they may journal an Abort event)',
    'technique': 'MIR symbolic execution + z3 with an effect boundary; Kani/CBMC on LineRange::shift; native replay',
}
CHECKS['C06'] = {
    'text': 'Narrow claim: the hand-off. Bounded symbolic execution of the real proxy_to_git with std::process::Command as a recorder: for every argv inside the bounds, hooks-path override, tty state and child outcome, exactly one child (the configured git) is spawned, its argv is the given vector verbatim preceded by `-c core.hooksPath=<p>` exactly when an override is present and the user passed none of the three spellings himself, stdio and cwd are inherited, the only environment change is the skip-managed-hooks marker, the returned status is the child\'s, and failing to run git exits 1.',
    'design_ref': 'DESIGN.md §4 C06',
    'note': 'equality of HEAD/refs/index/worktree/stdout with a twin repository is behaviour of git and of hook side effects — not encodable, not claimed',
    'technique': 'MIR symbolic execution + z3 with a process recorder, native replay with a recording stand-in for git',
}
CHECKS['C08'] = {
    'text': 'Narrow claim: the storage-mode dispatch of the commit path. Bounded symbolic execution of the real post_commit up to the note write with the producers, config, login state, redaction, CAS enqueue and notes_add as environment models: for every mode, login state, API URL and CAS outcome, no conversation text (symbolic) is in the note unless the mode is Notes; in Notes mode and before any upload the redaction ran first.',
    'design_ref': 'DESIGN.md §4 C08',
    'note': 'entropy-based secret redaction (floating point) is not applicable to this family; the amend path and Config::effective_prompt_storage are outside; counterexamples cannot be replayed natively (reported as inconclusive)',
    'technique': 'MIR symbolic execution + z3 with environment models',
}
CHECKS['C14'] = {
    'text': 'Kernel claim. Bounded symbolic execution of the real per-file checkpoint step: with the file\'s latest entry present and the snapshot equal to the (symbolic) current content the step yields no entry for every kind / pre-commit flag / INITIAL presence / AI-touched membership / feature flag, never consulting HEAD; a changed content under an AI checkpoint yields an entry for that file with the new snapshot hash that credits the reporting session; pruning keeps exactly the newest entry\'s character ranges and selection picks that entry; human-only checkpoints never make a file AI-touched. Identical text keeping every line\'s author is decided under C16.',
    'design_ref': 'DESIGN.md §4 C14',
    'note': 'splitting an edit into several checkpoints and checkpoint::run as a whole are outside',
    'technique': 'MIR symbolic execution + z3 over a model file system, native replay on a scratch repository',
}
CHECKS['C15'] = {
    'text': 'Kernel claim. Bounded symbolic execution of the real precondition comparator (tracked_paths_match_for_commit_pairs) and of both shortcut entry points (try_fast_path_rebase_note_remap, try_fast_path_cherry_pick_note_remap) against a model of `git diff-tree --stdin --raw -z -r -- <paths>` over model trees: for every number of pairs inside the bounds and every combination of per-pair agreement / difference on each tracked path (first, middle, last pair alike), unknown commits, empty tree ids, missing or unreadable notes, subset of commits to process, unequal list lengths and empty tracked paths, the comparator says "identical" only when every pair agrees on every tracked path, the shortcut is taken only then and only when every original has a note, what it writes is exactly one note per rewritten commit to process — the original\'s note with the base set to the rewritten commit — and declining writes nothing. That the rewritten text of the note parses to the same note with the base updated is decided under C17 (obligation R4).',
    'design_ref': 'DESIGN.md §4 C15',
    'note': 'equivalence with the content-replay algorithm on real histories is outside (the slow path drives blame and diff through git); soundness direction only: a comparator that declines more often keeps the property; reachability witnesses make sure the "identical" / "shortcut taken" answers are reached',
    'technique': 'MIR symbolic execution + z3 against a model of git diff-tree, native replay on real commits',
}
CHECKS['C20'] = {
    'text': 'Kernel claim (what happens with whatever a preset returns). Bounded symbolic execution of the real checkpoint dispatcher (handle_checkpoint: argument scan, preset dispatch for all eleven preset names, single-repository and file-based repository detection, cross-repository routing through group_files_by_repository / find_repository_for_file over a model file system) and of the path filter at the head of checkpoint::run with the real Repository::path_is_in_workdir: for every preset outcome (arbitrary error or arbitrary result), kind, working directory, reported file list inside the bounds, per-repository checkpoint failure and configuration exclusion, the command ends by returning or with exit status 0 and never panics; an excluded repository is never touched; every file list routed to another repository holds only files of that repository and carries its work tree as working directory; every reported file that lies in a different, allowed repository reaches that repository\'s checkpoint and files in no repository reach nobody; the pathspecs handed to file discovery are relative, stay inside the work tree, are exactly the reported paths that lie inside it, and a report naming only outside files never lets file discovery run unrestricted. Counterexamples are replayed end to end: the real `git-ai checkpoint agent-v1 --hook-input <json>` on a scratch workspace with three repositories, observing exit status and the checkpoints written in each.',
    'design_ref': 'DESIGN.md §4 C20',
    'note': 'the preset parsers themselves (serde_json over eleven third-party schemas, transcript and sqlite readers) are NOT applicable to this family and are not claimed: arbitrary text through serde_json cannot be encoded; paths are concrete spellings chosen by the solver-driven explorer, not symbolic bytes; the working log staying readable is decided under C07',
    'technique': 'MIR symbolic execution + z3 over a model file system, end-to-end native replay of the real command',
}
_PENDING = 'check not built yet in this round (under construction; see DESIGN.md §4)'
NOT_APPLICABLE = {
    'C10': 'convergence of notes across clones is decided by git\'s notes-merge / ref-transaction semantics over several repositories; git-ai\'s part is a fixed sequence of subprocess calls with no branch the solver could decide (DESIGN.md §7)',
    'C11': 'interleavings of processes over a file system and git ref locks; neither Kani nor the MIR executor models OS-level concurrency (DESIGN.md §7)',
    'C13': 'equivalence of two drivers of one state machine under sequences of real git operations; no input can be made symbolic without modelling git\'s rebase/cherry-pick/stash sequencing (DESIGN.md §7)',
}

# kernels added while strengthening against seeded changes (appended to the level notes)
_MORE = {
    'C01': ' Hunk headers without counts, `\\ No newline` markers, octal-escaped and quoted names are part of the grammar; the blank-line / dominant-author projection to lines is decided under C16.',
    'C02': ' Also decided: one step of the rebase / cherry-pick content replay (transform_changed_files_to_final_state with the real tracker, files of pairwise distinct lines: surviving AI lines keep their session, nothing else becomes AI); the cat-file --batch reader (every present blob back byte for byte); which tree entries have content (is_blob_mode); and the per-commit changed-file reader of the rebase replay over a model object store (changed files = tracked paths whose tree entry differs; content = the blob the tree names, also for a blob shared by two paths or two commits).',
    'C03': ' Also decided: the fold of the working log (from_just_working_log: a person\'s rewrite clears earlier AI claims), reset --hard and forced checkout / switch (HEAD moving or not) discarding pending claims, the pre-command hooks of reset and --merge checkouts taking a Human checkpoint before the working log is read, the stash note carrying exactly the stashed files, and the checkpoint path filter (C20) keeping a person\'s files out of an agent\'s checkpoint. One recorded finding lives in a concrete history and is shown by a native scenario on every run.',
    'C04': ' Also decided: prompts of every pending session are carried (INITIAL / note), the files the post-commit step re-examines include every INITIAL file and AI checkpoint entry, and the files `commit --amend` re-loads include every file with a pending AI line in an entry of any checkpoint kind (native replay through a real amend).',
    'C05': ' Also decided: notes_add_batch against a model of git fast-import (one note per commit, last entry wins, other notes untouched), and the per-commit loop of the slow rebase path with git as environment: every note written names its own commit, has a record for every session it attests, lists only files of that commit and exactly the surviving lines (native replay on plumbing-built histories).',
    'C06': ' Also decided: the child gets its own process group iff stdin is not a terminal (terminal facts are environment values for every descriptor), terminating signals are forwarded to it, and the exit status / signal is the child\'s (native replay under a pty with a stand-in git).',
    'C07': ' Also decided: the journal step under every corruption and single fault returns or panics (absorbed) and never exits, and it terminates (leftover lock file); a failing pre-commit step lets git run or exits non-zero after a diagnostic; the storage handle built before every wrapped command never panics whatever is in the way under .git/ai; the pre- and post-command dispatchers come back when every hook body panics.',
    'C08': ' Also decided: the real upload enqueue with the database as environment (per-prompt failure), and the storage policy (exclusion wins; include lists; fallback) with glob matching as an arbitrary consistent predicate decided up front.',
    'C09': ' Also decided: the porcelain reader (every final line keeps commit, original number and the originating path git printed, C-quoted names), the split of hunks by the person behind a session, the JSON writer (exactly the sessions\' lines), notes tree fan-out, and four real rename histories through the whole pipeline on every run.',
    'C12': ' Also decided: the argv that finally reaches git at the patch and numstat call sites carries every neutralising option (incl. --no-renames), and find_repository keeps the commands git-ai runs itself at the repository root for every combination of start directory and user global options (judged by git\'s own -C rule, replayed with real git).',
    'C14': ' Also decided: the pre-commit early exit is taken only when no AI checkpoint ever recorded a file, every AI-touched file (also one git reports as untracked) reaches the pre-commit scanner, the commit-time Human checkpoint is taken whatever the index holds, and every checkpoint handed to the working log is stored with its entries.',
    'C16': ' Also decided: moved blocks and whitespace-only reformats keep their line authors, and a block that is re-indented while it moves stays inside the new text and on character boundaries.',
    'C17': ' Paths containing a line feed and hashes containing a space are exercised and recorded as findings of the line-based format.',
    'C18': ' Alias names are matched case-insensitively (typed or reached from another alias in another case).',
    'C20': ' Also decided: files of a repository nested in the working repository, and of a sibling whose name extends the working repository\'s, reach their own repository; every preset is run with a payload directory different from the process directory; the VS Code hook path normaliser never panics on short texts (one byte, multi-byte first character, URIs).',
    'C19': ' Also decided: each tool is credited with exactly the lines of its sessions (a line listed twice counts once, for the last entry).',
}
for _k, _t in _MORE.items():
    if _k in CHECKS and _t not in CHECKS[_k]['text']:
        CHECKS[_k]['text'] += _t
