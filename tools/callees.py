#!/usr/bin/env python3-vt
"""List the callees reachable from given entry functions and how each resolves.
usage: callees.py [--mir FILE] [--unknown] entry1 entry2 ...
"""
import sys
import collections
sys.path.insert(0, '/verif')
from mirsym import interp, models  # noqa


def main():
    args = sys.argv[1:]
    mirp = '/verif/.cache/test.mir'
    only_unknown = False
    if args and args[0] == '--mir':
        mirp = args[1]
        args = args[2:]
    if args and args[0] == '--unknown':
        only_unknown = True
        args = args[1:]
    Mx = interp.Machine(mirp)
    models.install(Mx)
    seen = set()
    work = [Mx.find_fn(a) for a in args]
    res = collections.OrderedDict()
    while work:
        n = work.pop()
        if n in seen:
            continue
        seen.add(n)
        try:
            f = Mx.mir.get(n)
        except Exception as e:
            print('PARSE-ERROR', n, e)
            continue
        for bb in f.blocks.values():
            t = bb.term
            if t is None:
                continue
            # closures / fn items referenced in statements
            for st in bb.stmts:
                if st[0] == 'assign':
                    _collect_closures(Mx, st[2], work)
            if t.kind == 'call':
                for a in t.b:
                    if a.kind == 'const' and a.const[0] == 'zst' and a.const[1].startswith('{closure@'):
                        nm = Mx.mir.closure_by_span.get(a.const[1])
                        if nm:
                            work.append(nm)
                    if a.kind == 'const' and a.const[0] == 'fnitem':
                        try:
                            r = Mx.resolve(a.const[1])
                            if r[0] == 'mir':
                                work.append(r[1])
                        except Exception:
                            pass
                try:
                    r = Mx.resolve(t.a)
                except Exception as e:
                    res.setdefault(('error', str(e)[:100]), []).append(n)
                    continue
                if r[0] == 'mir':
                    work.append(r[1])
                else:
                    res.setdefault((r[0], r[2].key, t.a), []).append(n)
    byk = collections.OrderedDict()
    for (kind, key, *raw), users in res.items():
        byk.setdefault((kind, key), []).append((raw[0] if raw else '', users))
    for (kind, key), lst in sorted(byk.items()):
        if only_unknown and kind != 'unknown':
            continue
        print('%-8s %s' % (kind, key))
        if kind == 'unknown':
            for raw, users in lst[:2]:
                print('           e.g. %s' % raw[:200])
    print('functions:', len(seen), file=sys.stderr)


def _collect_closures(Mx, rv, work):
    if rv[0] == 'closure':
        nm = Mx.mir.closure_by_span.get(rv[1])
        if nm:
            work.append(nm)
    elif rv[0] == 'use' and rv[1].kind == 'const' and rv[1].const[0] in ('zst',):
        t = rv[1].const[1]
        if t.startswith('{closure@'):
            nm = Mx.mir.closure_by_span.get(t)
            if nm:
                work.append(nm)


main()
