#!/usr/bin/env python3
"""print the markdown table of DESIGN.md §9 from seeded/*/meta.json (+ check_result.txt)"""
import json
import os
import re
import sys

rows = []
base = '/verif/seeded'
for d in sorted(os.listdir(base)):
    mp = os.path.join(base, d, 'meta.json')
    if not os.path.exists(mp):
        continue
    m = json.load(open(mp))
    res = m.get('check_result') or []
    crp = os.path.join(base, d, 'check_result.txt')
    if os.path.exists(crp):
        res = open(crp).read().strip().splitlines()
    verdicts = []
    obs = []
    for line in res:
        mm = re.match(r'check=(C\d+) exit=(\d)', line)
        if mm:
            verdicts.append((mm.group(1), int(mm.group(2))))
        mm = re.match(r'\s+obligation=(\S+)', line)
        if mm and mm.group(1) not in obs:
            obs.append(mm.group(1))
    caught = [c for c, rc in verdicts if rc == 1]
    if caught:
        verdict = 'caught by ' + ', '.join(caught) + ((' (' + ', '.join(obs[:2]) + ')') if obs else '')
    elif any(rc == 2 for _, rc in verdicts):
        verdict = 'inconclusive (model found it, native replay did not reproduce)'
    elif verdicts:
        verdict = '**missed** — ' + (m.get('missed_because') or 'outside the claimed kernels')
    else:
        verdict = 'not run'
    what = (m.get('function') or '').split(':')[-1].strip() or ''
    summ = re.sub(r'\s+', ' ', m.get('summary', ''))[:150]
    extra = ' — strengthened: ' + m['strengthened'] if m.get('strengthened') else ''
    rows.append('| %s | %s | %s | %s%s |' % (d, m.get('property', ''), (what + ': ' if what else '') + summ, verdict, extra))
print('| seed | property | change | result on the stored check |')
print('|---|---|---|---|')
print('\n'.join(rows))
