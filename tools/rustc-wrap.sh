#!/bin/bash
# RUSTC_WRAPPER used for nightly/Kani builds of /repo's dependency tree.
# rustix 0.37.28's build.rs probes `#![feature(rustc_attrs)]` by compiling a
# snippet from stdin; on current nightlies the probe succeeds but the attribute
# the crate then uses no longer exists. Make exactly that probe fail; pass
# everything else through untouched.
last="${@: -1}"
if [ "$last" = "-" ]; then
  src="$(cat)"
  case "$src" in
    *"feature(rustc_attrs)"*) exit 1 ;;
  esac
  printf '%s' "$src" | "$@"
  exit $?
fi
exec "$@"
