#!/usr/bin/env python3
"""regenerate the §9 table of DESIGN.md between the markers from seeded/*/meta.json"""
import re
import subprocess
p = '/verif/DESIGN.md'
s = open(p).read()
table = subprocess.run(['python3', '/verif/tools/seeded_table.py'], stdout=subprocess.PIPE).stdout.decode().rstrip('\n')
block = '<!-- seeded-table:begin -->\n' + table + '\n<!-- seeded-table:end -->'
if 'SEEDED_TABLE' in s:
    s = s.replace('SEEDED_TABLE', block)
else:
    s = re.sub(r'<!-- seeded-table:begin -->.*?<!-- seeded-table:end -->', lambda m: block, s, flags=re.S)
open(p, 'w').write(s)
