#!/bin/bash
# usage: tools/try_seeded.sh <patch.diff> <ID> [tier]   -- apply a seeded change to /repo, run the check, undo the change
set -u
patch="$1"; id="$2"; tier="${3:-quick}"
cd /verif
if ! git -C /repo diff --quiet; then echo "/repo has uncommitted changes; refusing"; exit 3; fi
git -C /repo apply "$patch" || { echo "patch does not apply"; exit 3; }
./check "$id" --tier "$tier" > /tmp/seeded-$id.out 2>&1
rc=$?
git -C /repo checkout -- . 
echo "seeded $patch on $id: exit=$rc"
grep -E "^(VIOLATION|KNOWN-FINDING|INCONCLUSIVE|C[0-9]+ tier)" /tmp/seeded-$id.out | cut -c1-260
exit 0
