#!/usr/bin/env python3
"""Regenerate MANIFEST.json from tools/manifest_data.py (single source of truth)."""
import json, os, subprocess, sys
sys.path.insert(0, os.path.dirname(os.path.abspath(__file__)))
import manifest_data as D

def main():
    hooks = subprocess.run(['git', '-C', '/repo', 'log', '--format=%H %s'], stdout=subprocess.PIPE).stdout.decode().splitlines()
    hook_commits = [l.split()[0] for l in hooks if 'verif-hooks' in l]
    checks = []
    for pid, c in sorted(D.CHECKS.items()):
        checks.append({
            'property_id': pid,
            'quick_cmd': './check %s --tier quick' % pid,
            'thorough_cmd': './check %s --tier thorough' % pid,
            'evidence_file': '/verif/evidence/%s.json' % pid,
            'replay_cmd_template': './check %s --replay {path}' % pid,
            'engine': c.get('engine', 'mirsym'),
            'level_claimed': {'category': 'model_checking', 'text': c['text'], 'design_ref': c['design_ref']},
            'level_note': c['note'],
            'technique': c['technique'],
        })
    m = {
        'version': 1,
        'setup_cmd': './setup.sh',
        'hooks': {
            'guard': 'cargo feature verif-hooks',
            'enable': 'the native replay crate /verif/replay depends on git-ai with features = ["verif-hooks"]; the MIR that is symbolically executed is dumped with the feature OFF (the code users run)',
            'baseline_off_cmd': 'cd /repo && cargo nextest run --workspace --no-fail-fast --test-threads 8 --offline || cargo test --workspace --no-fail-fast --offline',
            'source_commits': hook_commits,
            'add_only': True,
        },
        'engines': D.ENGINES,
        'checks': checks,
        'notes': D.NOTES,
        'not_applicable': [{'property_id': k, 'reason': v} for k, v in sorted(D.NOT_APPLICABLE.items())],
    }
    with open(os.path.join(os.path.dirname(os.path.dirname(os.path.abspath(__file__))), 'MANIFEST.json'), 'w') as f:
        json.dump(m, f, indent=1)
    try:
        import jsonschema
        jsonschema.validate(m, json.load(open('/root/.vp/MANIFEST.schema.json')))
        print('MANIFEST.json valid: %d checks, %d not applicable' % (len(checks), len(m['not_applicable'])))
    except ImportError:
        print('written (jsonschema not available to validate)')

main()
