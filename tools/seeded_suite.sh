#!/bin/bash
# usage: tools/seeded_suite.sh [-j N] [seeded-id ...]
# Mutation regression: every stored seeded change (seeded/<id>/patch.diff) is applied to its own scratch
# worktree of /repo under /tmp and the property's check is run against that worktree (VERIF_REPO=...),
# so /repo itself is never touched.  Result: seeded/<id>/check_result.txt.  A seeded change counts as
# caught only when the check exits 1 with a VIOLATION line.
set -u
cd /verif
J=3
if [ "${1:-}" = "-j" ]; then J="$2"; shift 2; fi
ids=("$@")
if [ ${#ids[@]} -eq 0 ]; then ids=($(ls seeded)); fi
W=$((16 / J)); [ $W -lt 2 ] && W=2
run_one() {
  id="$1"
  prop=$(python3 -c "import json,sys; print(json.load(open('/verif/seeded/$id/meta.json'))['property'])")
  # a seeded change may be decided by the check of a neighbouring property ("checks": [...] in meta.json)
  checks=$(python3 -c "import json,sys; m=json.load(open('/verif/seeded/$id/meta.json')); print(' '.join(m.get('checks', [m['property']])))")
  wt=/tmp/sw-$id
  git -C /repo worktree remove --force "$wt" >/dev/null 2>&1
  rm -rf "$wt"
  git -C /repo worktree add --detach "$wt" HEAD >/dev/null 2>&1 || { echo "$id: cannot create worktree"; return; }
  if ! git -C "$wt" apply /verif/seeded/$id/patch.diff; then
    echo "$id $prop: PATCH DOES NOT APPLY" | tee /verif/seeded/$id/check_result.txt
    git -C /repo worktree remove --force "$wt"; return
  fi
  key=$(python3 -c "import hashlib,os; print(hashlib.sha1(os.path.realpath('$wt').encode()).hexdigest()[:10])")
  alt=/verif/.cache/alt/$key
  rm -rf "$alt"; mkdir -p "$alt"
  # start from the dependency builds of the main caches (same registry crates, same flags)
  [ -d /verif/.cache/mir-target ] && cp -a /verif/.cache/mir-target "$alt/mir-target"
  [ -d /verif/.cache/replay-target ] && cp -a /verif/.cache/replay-target "$alt/replay-target"
  : > /verif/seeded/$id/check_result.txt
  best=0
  for chk in $checks; do
    VERIF_REPO="$wt" VERIF_WORKERS=$W VERIF_BUDGET_S=${SEEDED_BUDGET_S:-3000} ./check "$chk" --tier "${SEEDED_TIER:-quick}" > "$alt/out.txt" 2>&1
    rc=$?
    {
      echo "check=$chk exit=$rc  ($(date -u +%FT%TZ), tier ${SEEDED_TIER:-quick}, worktree of /repo $(git -C /repo rev-parse --short HEAD) + patch)"
      grep -E "^(VIOLATION|  obligation=|INCONCLUSIVE|C[0-9]+ tier)" "$alt/out.txt" | cut -c1-400 | head -12
    } >> /verif/seeded/$id/check_result.txt
    [ $rc -eq 1 ] && best=1
    [ $rc -eq 2 ] && [ $best -eq 0 ] && best=2
  done
  rc=$best
  echo "$id $prop exit=$rc"
  git -C /repo worktree remove --force "$wt" >/dev/null 2>&1
  [ -n "${SEEDED_KEEP:-}" ] && cp -r "$alt/evidence" /tmp/evid-$id 2>/dev/null
  rm -rf "$wt" "$alt"
}
export -f run_one
export W
printf '%s\n' "${ids[@]}" | xargs -P "$J" -I{} bash -c 'run_one {}'
git -C /repo worktree prune
echo SUITEDONE
